#!/bin/sh
# Run the quick check of the broken property against every seeded change; one line each.
cd "$(dirname "$0")"
for d in seeded/*/; do
  id=$(basename $d)
  prop=$(python3 -c "import json;print(json.load(open('$d/meta.json'))['breaks_property'])")
  out=$(./tools_try_mutant.sh $d/patch.diff $prop 2>&1)
  if echo "$out" | grep -q '^VIOLATION'; then echo "$id $prop CAUGHT $(echo "$out" | grep '^violation' | head -1 | cut -c12-130)"; 
  elif echo "$out" | grep -q 'PATCH-DOES-NOT-APPLY'; then echo "$id $prop PATCH-DOES-NOT-APPLY";
  else echo "$id $prop MISSED $(echo "$out" | grep harness | head -1)"; fi
done
