#!/bin/sh
# usage: tools_silence.sh <first-seed> <last-seed>   -- every check at quick tier for each seed; prints one line per run
cd "$(dirname "$0")"
# under `vp run --with-repo` build against the snapshot of /repo, so that edits made to /repo
# while this runs cannot contaminate it (the snapshot of /verif is private to the run)
if [ -n "$VP_RUN_REPO" ] && [ "$(pwd)" != "/verif" ]; then
  sed -i "s#path = \"/repo\"#path = \"$VP_RUN_REPO\"#" sim/Cargo.toml
fi
for s in $(seq "$1" "$2"); do
  for id in C05 C16 C18; do
    out=$(VERIF_SEED=$s ./check $id --tier quick 2>&1); rc=$?
    echo "seed=$s $id exit=$rc $(echo "$out" | grep -c '^VIOLATION') violation-lines"
    if [ $rc -ne 0 ]; then echo "$out" | grep -E "^(violation|VIOLATION|harness)" | cut -c1-400; fi
  done
done
exit 0
