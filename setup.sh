#!/bin/sh
# Build the simulator from files on disk only (offline).
set -e
cd "$(dirname "$0")/sim"
CARGO_NET_OFFLINE=true exec cargo build --release --offline
