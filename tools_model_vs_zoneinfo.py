#!/usr/bin/env python3
"""Cross-check the simulator's reference zone model (sim/src/model.rs), the trusted base of the
C05 check, against two independent implementations, each inside the domain where it is itself
reliable:

 * CPython's zoneinfo (pure-Python implementation): TZif files it can load; instants and wall
   clocks (the pre-image is rebuilt from fold=0/1 answers that round-trip).
   (The C implementation is used, one child process per zone, because it segfaults on a few
   valid files; the pure-Python implementation answers the pre-transition type for instants
   after the only transition of e.g. Africa/Bangui and is therefore no use as a reference.)
   Known deviations that are left out, with counts: before the first transition CPython uses the
   first *standard* type (tzcode heuristic) where RFC 8536 and C05 say type 0; with no
   transitions and no footer it uses the last type; CPython 3.11 places the zero-based day form
   `n` of a footer one day early, and `J59` on 29 February in leap years (glibc, chrono and the
   model agree with POSIX on both); some valid files make it raise (IndexError in _utcoff_to_dstoff).
 * glibc (time.tzset / time.localtime): system zone files by name and POSIX rule strings in TZ
   itself; instants from 1970 on (for earlier years glibc's rule evaluation answers DST all year
   for southern-hemisphere rules, e.g. TZ='AAA-3BBB-4,M10.2.4,M3.4.3' on 1951-10-05).

Usage: tools_model_vs_zoneinfo.py [n_per_class] [seed]    exit 0 = no disagreement."""
import sys, json, io, subprocess, datetime, os, re, time
from zoneinfo import ZoneInfo   # the C implementation; it can crash on odd files, so every zone
                               # is examined in a process of its own (see main at the bottom)
UTC = datetime.timezone.utc
EPOCH = datetime.datetime(1970, 1, 1)
KEYS = ["zones", "py_zones", "py_unloadable", "py_zero_based", "py_inst", "py_walls", "py_bad", "py_left_out", "py_crashed", "g_zones", "g_inst", "g_bad"]
def footer_of(raw):
    if raw[4:5] == b"\0": return ""
    return raw[raw.rfind(b"\n", 0, len(raw) - 1) + 1:-1].decode("latin1")

def one(line):
    st = {k: 0 for k in KEYS}
    msgs = []
    def say(*a):
        if len(msgs) < 6: msgs.append(" ".join(str(x) for x in a))
    c = json.loads(line)
    raw = bytes.fromhex(c["hex"])
    st["zones"] += 1
    footer = footer_of(raw)
    label = c["label"]
    # ---------------- glibc
    tzval = None
    if label.startswith("rule#"):
        tzval = footer
    elif not label.startswith("synthetic#"):
        tzval = ":" + label
    if tzval is not None:
        os.environ["TZ"] = tzval
        time.tzset()
        st["g_zones"] += 1
        cut = 0
        if not c["type0_is_first_standard_type"] and c["first_transition"] is not None:
            cut = max(cut, c["first_transition"] + 2 * 86400)
        for u, want in c["instants"]:
            if u < cut:
                continue
            st["g_inst"] += 1
            got = time.localtime(u).tm_gmtoff
            if got != want:
                st["g_bad"] += 1
                say("GLIBC", label, tzval, u, "model", want, "glibc", got)
    # ---------------- CPython zoneinfo
    if any(re.fullmatch(r"(\d+|J59)(/.*)?", f) for f in footer.split(",")[1:]):
        st["py_zero_based"] += 1
        return st, msgs
    if c["first_transition"] is None and not c["has_rule"]:
        st["py_left_out"] += len(c["instants"]) + len(c["walls"])
        return st, msgs
    try:
        z = ZoneInfo.from_file(io.BytesIO(raw), key=label)
    except Exception:
        st["py_unloadable"] += 1
        return st, msgs
    st["py_zones"] += 1
    cut = None
    if not c["type0_is_first_standard_type"]:
        cut = -10**18 if c["first_transition"] is None else c["first_transition"] + 2 * 86400
    for u, want in c["instants"]:
        if cut is not None and u < cut:
            st["py_left_out"] += 1
            continue
        got = datetime.datetime.fromtimestamp(u, z).utcoffset()
        st["py_inst"] += 1
        if got != datetime.timedelta(seconds=want):
            st["py_bad"] += 1
            say("CPYTHON-INSTANT", label, footer, u, "model", want, "zoneinfo", got)
    for w, want in c["walls"]:
        if cut is not None and w < cut:
            st["py_left_out"] += 1
            continue
        naive = EPOCH + datetime.timedelta(seconds=w)
        cands = []
        for fold in (0, 1):
            off = naive.replace(tzinfo=z, fold=fold).utcoffset()
            back = (naive - off).replace(tzinfo=UTC).astimezone(z).replace(tzinfo=None)
            if back == naive and off not in cands:
                cands.append(off)
        cands.sort(reverse=True)  # earliest instant first = largest offset first
        st["py_walls"] += 1
        if [int(x.total_seconds()) for x in cands] != want:
            st["py_bad"] += 1
            say("CPYTHON-WALL", label, footer, w, naive, "model", want, "zoneinfo", [int(x.total_seconds()) for x in cands])
    return st, msgs

if len(sys.argv) > 1 and sys.argv[1] == "--one":
    st, msgs = one(sys.stdin.readline())
    print(json.dumps({"st": st, "msgs": msgs}))
    sys.exit(0)

n = sys.argv[1] if len(sys.argv) > 1 else "300"
seed = sys.argv[2] if len(sys.argv) > 2 else "20261001"
here = os.path.dirname(os.path.abspath(__file__))
exe = os.path.join(here, "sim", "target", "release", "sim")
out = subprocess.run([exe, "dump-model-cases", n, "--seed", seed], capture_output=True, text=True).stdout
from concurrent.futures import ThreadPoolExecutor
def run(line):
    r = subprocess.run([sys.executable, os.path.abspath(__file__), "--one"], input=line + "\n", capture_output=True, text=True)
    if r.returncode != 0:
        return {"st": {"zones": 1, "py_crashed": 1}, "msgs": ["CPYTHON-CRASH (exit %d) on %s" % (r.returncode, json.loads(line)["label"])]}
    return json.loads(r.stdout)
tot = {k: 0 for k in KEYS}
shown = 0
with ThreadPoolExecutor(max_workers=16) as ex:
    for res in ex.map(run, out.splitlines()):
        for k, v in res["st"].items(): tot[k] += v
        for m in res["msgs"]:
            if shown < 30: print(m); shown += 1
print(json.dumps(tot))
sys.exit(1 if (tot["py_bad"] or tot["g_bad"]) else 0)
