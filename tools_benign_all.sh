#!/bin/sh
# Behaviour-preserving refactorings of chrono (benign/<id>/patch.diff): every quick check must
# stay silent on each of them. One line per refactoring and check.
export VERIF_EVIDENCE_DIR="${VERIF_EVIDENCE_DIR:-/verif/sim/target/evidence-scratch}"
cd "$(dirname "$0")"
git -C /repo diff --quiet || { echo "/repo has uncommitted changes"; exit 2; }
rc=0
for d in benign/*/; do
  id=$(basename $d)
  if ! git -C /repo apply --check "$PWD/$d/patch.diff" 2>/dev/null; then echo "$id PATCH-DOES-NOT-APPLY"; continue; fi
  git -C /repo apply "$PWD/$d/patch.diff"
  for c in C05 C16 C18; do
    out=$(./check $c --tier quick 2>&1); e=$?
    case $e in
      0) echo "$id $c silent";;
      1) echo "$id $c ALARM $(echo "$out" | grep '^violation' | head -1 | cut -c1-200)"; rc=1;;
      *) echo "$id $c HARNESS-ERROR $(echo "$out" | tail -2 | tr '\n' ' ' | cut -c1-200)"; rc=1;;
    esac
  done
  git -C /repo checkout -- .
done
(cd sim && CARGO_NET_OFFLINE=true cargo build --release --offline >/dev/null 2>&1)
exit $rc
