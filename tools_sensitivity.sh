#!/bin/sh
# evidence of runs against deliberately broken trees goes to a scratch directory, never to evidence/
export VERIF_EVIDENCE_DIR="${VERIF_EVIDENCE_DIR:-/verif/sim/target/evidence-scratch}"
# Apply each hand-written breaking change of sensitivity/LIST.txt to /repo, run the quick check
# of the property it breaks, revert. Prints one line per change: CAUGHT / MISSED / BUILD-FAILED.
cd "$(dirname "$0")"
git -C /repo diff --quiet || { echo "/repo has uncommitted changes"; exit 2; }
while read name id; do
  [ -z "$name" ] && continue
  if ! git -C /repo apply --check "$PWD/sensitivity/$name.diff" 2>/dev/null; then echo "$name $id DOES-NOT-APPLY"; continue; fi
  git -C /repo apply "$PWD/sensitivity/$name.diff"
  out=$(./check $id --tier quick 2>&1); rc=$?
  git -C /repo checkout -- .
  case $rc in
    1) echo "$name $id CAUGHT $(echo "$out" | grep '^violation' | head -1 | cut -c1-160)";;
    0) echo "$name $id MISSED";;
    *) echo "$name $id BUILD-OR-HARNESS-ERROR $(echo "$out" | tail -3 | tr '\n' ' ' | cut -c1-200)";;
  esac
done < sensitivity/LIST.txt
(cd sim && CARGO_NET_OFFLINE=true cargo build --release --offline >/dev/null 2>&1)
