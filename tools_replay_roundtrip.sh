#!/bin/sh
# evidence of runs against deliberately broken trees goes to a scratch directory, never to evidence/
export VERIF_EVIDENCE_DIR="${VERIF_EVIDENCE_DIR:-/verif/sim/target/evidence-scratch}"
# For one seeded change per property: apply it, run the quick check, take the first replay file
# it reports, re-execute that file in a fresh process (must reproduce: exit 1), revert the change
# and re-execute again (must say "not reproduced": exit 0).
cd "$(dirname "$0")"
git -C /repo diff --quiet || { echo "/repo has uncommitted changes"; exit 2; }
rc=0
for pair in "c05a-2 C05" "c16b-1 C16" "c18a-2 C18" "c18e-1 C18"; do
  set -- $pair; id=$1; prop=$2
  [ -f seeded/$id/patch.diff ] || { echo "$id: no such seeded change"; continue; }
  git -C /repo apply "$PWD/seeded/$id/patch.diff"
  f=$(./check $prop --tier quick 2>&1 | grep '^VIOLATION' | head -1 | sed 's/.*replay=//')
  if [ -z "$f" ]; then echo "$id $prop: check reported nothing"; rc=1; git -C /repo checkout -- .; continue; fi
  ./check $prop --replay "$f" > /tmp/rr_with.txt 2>&1; with=$?
  git -C /repo checkout -- .
  ./check $prop --replay "$f" > /tmp/rr_without.txt 2>&1; without=$?
  echo "$id $prop replay=$f with-change-exit=$with (want 1) without-change-exit=$without (want 0)"
  [ $with -eq 1 ] && [ $without -eq 0 ] || rc=1
done
exit $rc
