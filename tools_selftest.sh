#!/bin/sh
# The simulator's own self-tests (not property checks): determinism, stub fidelity, reach.
cd "$(dirname "$0")/sim" || exit 2
CARGO_NET_OFFLINE=true cargo build --release --offline >build.log 2>&1 || { cat build.log; exit 2; }
rc=0
./target/release/sim selftest determinism "${1:-24}" || rc=2
./target/release/sim selftest stub-fidelity || rc=2
./target/release/sim selftest reach || rc=2
exit $rc
