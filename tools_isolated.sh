#!/bin/sh
# usage (under `vp run --with-repo`): tools_isolated.sh <command...>
# Points the simulator of this private snapshot of /verif at the snapshot of /repo, so that
# edits made to /repo while the command runs cannot contaminate it; then runs the command.
cd "$(dirname "$0")"
if [ -n "$VP_RUN_REPO" ] && [ "$(pwd)" != "/verif" ]; then
  sed -i "s#path = \"/repo\"#path = \"$VP_RUN_REPO\"#" sim/Cargo.toml
fi
exec "$@"
