#!/bin/sh
# usage: tools_multiseed_thorough.sh <seed>...   -- thorough tier of every check for each seed, one line per run
cd "$(dirname "$0")"
for s in "$@"; do
  for id in C05 C18 C16; do
    out=$(./check $id --tier thorough --seed $s 2>&1); rc=$?
    echo "seed=$s $id thorough exit=$rc"
    if [ $rc -ne 0 ]; then echo "$out" | grep -E '^(violation|VIOLATION|harness)' | cut -c1-500; fi
  done
done
exit 0
