//! C16: the TZif and TZ-rule readers under storage faults.
//!
//! A. what a conforming writer produced is accepted and read back exactly (fault-free);
//! B. every torn / corrupted variant of those files is survived, and rejected where the injector
//!    constructed an invalid file; C. the same for TZ strings; D. every accepted zone answers the
//!    totality sweep without panicking.

use std::collections::{BTreeMap, HashSet};
use std::sync::Arc;
use std::time::Instant;

use chrono::__verif::Zone;
use serde::{Deserialize, Serialize};
use serde_json::{json, Value};

use crate::alloc::measure;
use crate::c18::SysZones;
use crate::gen::{self, ZoneGenCfg};
use crate::model::{parse_posix_tz, Rule, ZoneModel};
use crate::oracle18::answer;
use crate::plan::{fnv, hexbytes::hex, hexbytes::unhex};
use crate::rng::Rng;
use crate::runner::{report, write_evidence, Evidence, Finding, Opts};
use crate::tzif::{self, Layout};
use crate::worker::{guarded, naive, Api, Res, Worker};
use crate::world::{Admin, ConvFaults, Fs, Inode, SimWorld, State};

#[derive(Clone, Copy, Debug, PartialEq, Eq)]
pub enum Part {
    Files,
    Sys,
    Strings,
    Random,
}

impl Part {
    pub fn name(self) -> &'static str {
        match self {
            Part::Files => "files",
            Part::Sys => "system",
            Part::Strings => "strings",
            Part::Random => "random",
        }
    }
    pub fn parse(s: &str) -> Option<Part> {
        Some(match s {
            "files" => Part::Files,
            "system" => Part::Sys,
            "strings" => Part::Strings,
            "random" => Part::Random,
            _ => return None,
        })
    }
    fn stream(self) -> u64 {
        match self {
            Part::Files => 1600,
            Part::Sys => 1601,
            Part::Strings => 1602,
            Part::Random => 1603,
        }
    }
}

/// What the statement demands of one input.
#[derive(Clone, Copy, Debug, PartialEq, Eq, Serialize, Deserialize)]
pub enum Expect {
    /// a conforming writer produced it: accepted, read back exactly
    Accept,
    /// the injector constructed an invalid input: rejected
    Reject,
    /// anything goes, except panicking, over-allocating or an accepted zone that cannot be queried
    Survive,
}

#[derive(Clone, Debug, Serialize, Deserialize)]
pub struct Input {
    /// "tzif" | "tzstr" | "tzstr-ext"
    pub mode: String,
    pub hex: String,
    pub expect: Expect,
    /// for `Accept`: the zone rendered in chrono's Debug shape
    pub expected_debug: Option<String>,
    pub what: String,
}

#[derive(Clone, Debug)]
pub struct Problem {
    pub class: String,
    pub detail: String,
    pub input: Input,
}

fn parse_input(mode: &str, bytes: &[u8]) -> Result<Zone, String> {
    match mode {
        "tzif" => Zone::from_tzif(bytes),
        "tzstr" => Zone::from_posix_rule(bytes, false),
        _ => Zone::from_posix_rule(bytes, true),
    }
}

/// Location of a panic, relative to the crate it happened in (`src/...:line`), so that
/// signatures do not depend on where the repository is checked out.
fn panic_loc(p: &str) -> String {
    let loc = p.rsplit(" @ ").next().unwrap_or("");
    match loc.rfind("/src/") {
        Some(i) => loc[i + 1..].to_string(),
        None => loc.to_string(),
    }
}

/// Totality sweep: every query on an accepted zone returns (Ok or Err), never panics.
pub fn totality(z: &Zone, trans: &[i64], offs: &[i32], rng: &mut Rng) -> Option<String> {
    let mut instants: Vec<i64> = vec![
        i64::MIN,
        i64::MIN + 1,
        -(1 << 59),
        -(1 << 40),
        -1,
        0,
        1 << 31,
        1 << 40,
        1 << 59,
        i64::MAX - 1,
        i64::MAX,
        -8_334_601_228_800, // NaiveDateTime::MIN
        8_210_266_876_799,  // NaiveDateTime::MAX
    ];
    for &t in trans {
        for d in [-1i64, 0, 1] {
            if let Some(x) = t.checked_add(d) {
                instants.push(x);
            }
        }
    }
    for _ in 0..8 {
        instants.push(rng.next() as i64);
        instants.push(rng.range(-10_000_000_000, 10_000_000_000));
    }
    for &u in &instants {
        if let Err(p) = guarded(|| {
            let _ = z.offset_at(u);
        }) {
            return Some(format!("offset_at({}) panicked: {}", u, p));
        }
    }
    let nmin = -8_334_601_228_800i64;
    let nmax = 8_210_266_876_799i64;
    let mut walls: Vec<i64> = vec![nmin, nmin + 1, nmax - 1, nmax, 0, -1, 1 << 31, 1 << 40, -(1 << 40)];
    for &t in trans {
        for &o in offs {
            for d in [-1i64, 0, 1] {
                if let Some(x) = t.checked_add(o as i64).and_then(|x| x.checked_add(d)) {
                    walls.push(x);
                }
            }
        }
    }
    for _ in 0..8 {
        walls.push(rng.range(nmin, nmax));
        walls.push(rng.range(-10_000_000_000, 10_000_000_000));
    }
    for &w in &walls {
        let w = w.clamp(nmin, nmax);
        let n = match naive(w) {
            Some(n) => n,
            None => continue,
        };
        if let Err(p) = guarded(|| {
            let _ = z.offsets_for_local(n);
        }) {
            return Some(format!("offsets_for_local({}) panicked: {}", w, p));
        }
    }
    None
}

/// Transition instants (a sample of them) and the distinct offsets of a zone, to aim the sweeps.
fn zone_numbers(m: &ZoneModel) -> (Vec<i64>, Vec<i32>) {
    let mut trans: Vec<i64> = m.trans.iter().map(|t| t.0).collect();
    let offs = m.offsets();
    if trans.len() > 40 {
        let keep: Vec<i64> = trans.iter().take(10).chain(trans.iter().rev().take(10)).copied().collect();
        trans = keep;
    }
    (trans, offs)
}

fn debug_numbers(z: &Zone) -> (Vec<i64>, Vec<i32>) {
    zone_numbers(&ZoneModel::from_view(&z.view()))
}

#[derive(Default, Serialize, Deserialize, Clone)]
pub struct Tally {
    pub parses: u64,
    pub accepted: u64,
    pub rejected: u64,
    pub must_accept: u64,
    pub must_reject: u64,
    pub survive_only: u64,
    pub survive_accepted: u64,
    pub totality_sweeps: u64,
    pub max_alloc_ratio_permille: u64,
    pub public_route_checks: u64,
    pub content_checks: u64,
}

/// Evaluate one input against what the statement demands of it.
pub fn evaluate(input: &Input, bytes: &[u8], rng: &mut Rng, tally: &mut Tally) -> Option<Problem> {
    let prob = |class: String, detail: String| Some(Problem { class, detail, input: input.clone() });
    tally.parses += 1;
    let (r, max_one, total) = measure(|| guarded(|| parse_input(&input.mode, bytes)));
    let len = bytes.len();
    let ratio = (max_one as u64 * 1000) / (len as u64 + 1);
    if max_one > 1024 && ratio > tally.max_alloc_ratio_permille {
        tally.max_alloc_ratio_permille = ratio;
    }
    if max_one > 8 * len + 4096 || total > 64 * len + 16384 {
        return prob(
            "alloc-beyond-input".into(),
            format!("{}: input of {} bytes, largest single allocation {} bytes, total {} bytes", input.what, len, max_one, total),
        );
    }
    let z = match r {
        Err(p) => return prob(format!("reader-panic:{}", panic_loc(&p)), format!("{}: {}", input.what, p)),
        Ok(z) => z,
    };
    match input.expect {
        Expect::Accept => tally.must_accept += 1,
        Expect::Reject => tally.must_reject += 1,
        Expect::Survive => tally.survive_only += 1,
    }
    match (&z, input.expect) {
        (Err(e), Expect::Accept) => {
            return prob("valid-input-rejected".into(), format!("{}: rejected with {}", input.what, e));
        }
        (Ok(z), Expect::Reject) => {
            return prob("invalid-input-accepted".into(), format!("{}: accepted as {}", input.what, z.debug()));
        }
        _ => {}
    }
    let z = match z {
        Ok(z) => z,
        Err(_) => {
            tally.rejected += 1;
            return None;
        }
    };
    tally.accepted += 1;
    if input.expect == Expect::Survive {
        tally.survive_accepted += 1;
    }
    // what the reader built, rendered by this harness from the structured view (chrono's own
    // Debug output is used for messages only)
    let view = z.view();
    // chrono hands designations out as `&str` without re-checking them: a zone holding bytes
    // that are not UTF-8 means the reader has built an invalid `str` (undefined behaviour)
    {
        use chrono::__verif::RuleView;
        let mut names: Vec<&Option<String>> = view.types.iter().map(|t| &t.2).collect();
        match &view.rule {
            Some(RuleView::Fixed(t)) => names.push(&t.2),
            Some(RuleView::Alternate(s, d, ..)) => {
                names.push(&s.2);
                names.push(&d.2);
            }
            None => {}
        }
        for n in names.into_iter().flatten() {
            if std::str::from_utf8(std::hint::black_box(n.as_bytes())).is_err() {
                return prob(
                    "accepted-zone-invalid-str".into(),
                    format!("{}: accepted with a designation whose bytes {:02x?} are not UTF-8, and handed out as a str", input.what, n.as_bytes()),
                );
            }
        }
    }
    let built = ZoneModel::from_view(&view);
    let dbg = built.debug();
    if let (Expect::Accept, Some(want)) = (input.expect, &input.expected_debug) {
        if dbg != *want {
            return prob("readback-differs".into(), format!("{}: written {} read {}", input.what, want, dbg));
        }
    }
    // Whatever fault produced these bytes: if the independent reader can read them as a file
    // within chrono's documented restrictions (and both headers agree on the version), an
    // accepted zone must carry exactly what the bytes say - no mis-slicing.
    if input.expect == Expect::Survive && input.mode == "tzif" {
        if let Some(m) = reference_reading(bytes) {
            tally.content_checks += 1;
            let want = m.debug();
            if dbg != want {
                return prob("accepted-content-differs".into(), format!("{}: the bytes say {} but the reader built {}", input.what, want, dbg));
            }
        }
    }
    let (trans, offs) = zone_numbers(&built);
    tally.totality_sweeps += 1;
    if let Some(p) = totality(&z, &trans, &offs, rng) {
        return prob(format!("lookup-panic:{}", panic_loc(&p)), format!("{}: {}", input.what, p));
    }
    None
}

/// The independent reader's view of `bytes`, if they form a file inside the restrictions chrono
/// documents (abbreviations of 3-7 alphanumeric/+- characters) with consistent headers.
fn reference_reading(bytes: &[u8]) -> Option<ZoneModel> {
    let m = crate::model::read_tzif(bytes)?;
    let v = *bytes.get(4)?;
    if v != 0 {
        // find the second header: it must carry the same version byte
        let mut c = [0usize; 6];
        for k in 0..6 {
            c[k] = u32::from_be_bytes(bytes.get(20 + 4 * k..24 + 4 * k)?.try_into().ok()?) as usize;
        }
        let h2 = 44 + c[3] * 4 + c[3] + c[4] * 6 + c[5] + c[2] * 8 + c[1] + c[0];
        if *bytes.get(h2 + 4)? != v {
            return None;
        }
    }
    for t in &m.types {
        let n = t.abbr.as_bytes();
        if !(n.is_empty() || ((3..=7).contains(&n.len()) && n.iter().all(|c| c.is_ascii_alphanumeric() || *c == b'+' || *c == b'-'))) {
            return None;
        }
    }
    Some(m)
}

// ---------------------------------------------------------------- fault injectors (TZif)

pub const FAULT_KINDS: [&str; 29] = [
    "magic_overwritten",
    "version_unsupported",
    "trailing_bytes_after_v1",
    "garbage_after_footer",
    "transitions_swapped",
    "transition_duplicated",
    "type_index_out_of_range",
    "abbr_index_out_of_range",
    "abbr_unterminated",
    "footer_leading_nl_missing",
    "footer_trailing_nl_missing",
    "footer_nul_inside",
    "footer_out_of_range_rule",
    "version_switched",
    "v1_block_corrupted",
    "count_extreme",
    "count_plus_minus_one",
    "bit_flip",
    "byte_stuck",
    "block_zeroed",
    "block_dropped",
    "block_duplicated",
    "splice_two_files",
    "isdst_not_boolean",
    "utoff_extreme",
    "time_extreme",
    "leap_extreme",
    "footer_non_ascii_blank",
    "abbr_non_ascii_byte",
];

const BAD_FOOTERS: [&str; 12] = [
    "AAA3BBB,M13.1.0,M11.1.0",
    "AAA3BBB,M0.1.0,M11.1.0",
    "AAA3BBB,M3.6.0,M11.1.0",
    "AAA3BBB,M3.0.0,M11.1.0",
    "AAA3BBB,M3.2.7,M11.1.0",
    "AAA3BBB,J0,J100",
    "AAA3BBB,J366,J100",
    "AAA3BBB,366,100",
    "AAA25",
    "AAA5:60",
    "AAA5:00:60",
    "AA5",
];

/// Apply fault `kind` to a writer-produced file. Returns (bytes, expectation, description), or
/// `None` when the fault does not apply to this file.
pub fn inject(
    kind: &str,
    b: &[u8],
    lay: &Layout,
    other: &[u8],
    rng: &mut Rng,
) -> Option<(Vec<u8>, Expect, String)> {
    let mut out = b.to_vec();
    let v2 = lay.version >= 2;
    let hdrs: Vec<usize> = if v2 { vec![0, lay.hdr] } else { vec![0] };
    let set32 = |out: &mut Vec<u8>, at: usize, v: u32| out[at..at + 4].copy_from_slice(&v.to_be_bytes());
    match kind {
        "magic_overwritten" => {
            let h = *rng.pick(&hdrs);
            let i = h + rng.usize(4);
            let old = out[i];
            let mut n = rng.below(256) as u8;
            if n == old {
                n = n.wrapping_add(1);
            }
            out[i] = n;
            Some((out, Expect::Reject, format!("magic byte {} of header at {} overwritten", i - h, h)))
        }
        "version_unsupported" => {
            let h = *rng.pick(&hdrs);
            let mut n = rng.below(256) as u8;
            while n == 0 || n == b'2' || n == b'3' {
                n = rng.below(256) as u8;
            }
            out[h + 4] = n;
            Some((out, Expect::Reject, format!("version byte of header at {} set to {:#04x}", h, n)))
        }
        "trailing_bytes_after_v1" => {
            if v2 {
                return None;
            }
            let n = 1 + rng.usize(8);
            for _ in 0..n {
                out.push(rng.below(256) as u8);
            }
            Some((out, Expect::Reject, format!("{} bytes appended after a version-1 body", n)))
        }
        "garbage_after_footer" => {
            if !v2 {
                return None;
            }
            let n = 1 + rng.usize(8);
            for k in 0..n {
                let mut c = rng.below(256) as u8;
                if k == n - 1 && c == b'\n' {
                    c = b'x';
                }
                out.push(c);
            }
            Some((out, Expect::Reject, format!("{} bytes (not ending in NL) appended after the footer", n)))
        }
        "transitions_swapped" | "transition_duplicated" => {
            if lay.timecnt < 2 {
                return None;
            }
            let k = rng.usize(lay.timecnt - 1);
            let ts = lay.time_size;
            let a = lay.times.0 + k * ts;
            let (x, y) = (out[a..a + ts].to_vec(), out[a + ts..a + 2 * ts].to_vec());
            if kind == "transitions_swapped" {
                out[a..a + ts].copy_from_slice(&y);
                out[a + ts..a + 2 * ts].copy_from_slice(&x);
            } else {
                out[a + ts..a + 2 * ts].copy_from_slice(&x);
            }
            Some((out, Expect::Reject, format!("transition times {} and {}: {}", k, k + 1, kind)))
        }
        "type_index_out_of_range" => {
            if lay.timecnt == 0 || lay.typecnt >= 256 {
                return None;
            }
            let k = rng.usize(lay.timecnt);
            let v = if rng.chance(1, 2) { lay.typecnt } else { lay.typecnt + rng.usize(256 - lay.typecnt) };
            out[lay.idx.0 + k] = v as u8;
            Some((out, Expect::Reject, format!("type index of transition {} set to {} (typecnt {})", k, v, lay.typecnt)))
        }
        "abbr_index_out_of_range" => {
            if lay.charcnt >= 256 {
                return None;
            }
            let k = rng.usize(lay.typecnt);
            let v = if rng.chance(1, 2) { lay.charcnt } else { lay.charcnt + rng.usize(256 - lay.charcnt) };
            out[lay.ttinfo.0 + k * 6 + 5] = v as u8;
            Some((out, Expect::Reject, format!("abbreviation index of type {} set to {} (charcnt {})", k, v, lay.charcnt)))
        }
        "abbr_unterminated" => {
            // overwrite the final NUL of the table and point a type into the last string
            let last = lay.chars.1 - 1;
            out[last] = b'X';
            let start = out[lay.chars.0..last].iter().rposition(|&c| c == 0).map(|p| p + 1).unwrap_or(0);
            let k = rng.usize(lay.typecnt);
            out[lay.ttinfo.0 + k * 6 + 5] = start as u8;
            Some((out, Expect::Reject, format!("abbreviation table left unterminated, type {} points at its tail", k)))
        }
        "footer_non_ascii_blank" => {
            // the rule between the two newlines padded with a blank that is not an ASCII one
            // (vertical tab, NEL, no-break space, em space, ideographic space): malformed
            if !v2 {
                return None;
            }
            let (a, e) = lay.footer;
            let pad = *rng.pick(&["\x0b", "\u{85}", "\u{a0}", "\u{2003}", "\u{3000}", "\u{1680}"]);
            let at = if rng.chance(1, 2) { a + 1 } else { e - 1 };
            let tail = out.split_off(at);
            out.extend_from_slice(pad.as_bytes());
            out.extend_from_slice(&tail);
            Some((out, Expect::Reject, format!("footer padded with {:?} at {} newline", pad, if at == a + 1 { "the opening" } else { "the closing" })))
        }
        "abbr_non_ascii_byte" => {
            // one byte of a designation in use replaced by a byte above 0x7f. Whether such a file
            // is accepted is not laid down; but a zone built from it must not hand out its bytes
            // as a `str` (checked for every accepted zone in `evaluate`)
            let k = rng.usize(lay.typecnt);
            let i = out[lay.ttinfo.0 + k * 6 + 5] as usize;
            let start = lay.chars.0 + i;
            if start >= lay.chars.1 || out[start] == 0 {
                return None;
            }
            let len = out[start..lay.chars.1].iter().position(|&c| c == 0).unwrap_or(lay.chars.1 - start);
            let j = start + rng.usize(len);
            let b = *rng.pick(&[0x80u8, 0xaa, 0xb5, 0xba, 0xc0, 0xc9, 0xe9, 0xf8, 0xff]);
            out[j] = b;
            Some((out, Expect::Survive, format!("byte {} of the designation of type {} set to {:#04x}", j - start, k, b)))
        }
        "footer_leading_nl_missing" | "footer_trailing_nl_missing" | "footer_nul_inside" | "footer_out_of_range_rule" => {
            if !v2 {
                return None;
            }
            let (a, e) = lay.footer;
            match kind {
                "footer_leading_nl_missing" => {
                    out[a] = *rng.pick(&[b' ', b'X', 0u8, b'\r']);
                }
                "footer_trailing_nl_missing" => {
                    if rng.chance(1, 2) {
                        out[e - 1] = *rng.pick(&[b' ', b'X', 0u8, b'\r']);
                    } else {
                        out.truncate(e - 1);
                        if out.len() == a + 1 {
                            // a lone newline: still a footer without its closing newline
                        }
                    }
                }
                "footer_nul_inside" => {
                    if e - a <= 2 {
                        let tail = out.split_off(a + 1);
                        out.push(0);
                        out.extend_from_slice(&tail);
                    } else {
                        let i = a + 1 + rng.usize(e - a - 2);
                        out[i] = 0;
                    }
                }
                _ => {
                    out.truncate(a + 1);
                    out.extend_from_slice(rng.pick(&BAD_FOOTERS).as_bytes());
                    out.push(b'\n');
                }
            }
            Some((out, Expect::Reject, kind.to_string()))
        }
        "version_switched" => {
            let h = *rng.pick(&hdrs);
            let cur = out[h + 4];
            let mut n = *rng.pick(&[0u8, b'2', b'3']);
            if n == cur {
                n = if cur == b'2' { b'3' } else { b'2' };
            }
            out[h + 4] = n;
            Some((out, Expect::Survive, format!("version byte of header at {} switched to {:#04x}", h, n)))
        }
        "v1_block_corrupted" => {
            if !v2 || lay.v1_data.1 <= lay.v1_data.0 {
                return None;
            }
            let i = lay.v1_data.0 + rng.usize(lay.v1_data.1 - lay.v1_data.0);
            out[i] ^= 1 << rng.below(8);
            Some((out, Expect::Survive, format!("bit flipped at {} inside the ignored 32-bit block", i)))
        }
        "count_extreme" | "count_plus_minus_one" => {
            let h = *rng.pick(&hdrs);
            let f = rng.usize(6);
            let at = h + 20 + 4 * f;
            let cur = u32::from_be_bytes(out[at..at + 4].try_into().unwrap());
            let v = if kind == "count_extreme" {
                *rng.pick(&[0u32, 1, 2, 255, 256, 65_535, 1 << 24, (1 << 31) - 1, 1 << 31, u32::MAX - 1, u32::MAX])
            } else if rng.chance(1, 2) {
                cur.wrapping_add(1)
            } else {
                cur.wrapping_sub(1)
            };
            set32(&mut out, at, v);
            Some((out, Expect::Survive, format!("header at {}: count field {} set to {} (was {})", h, f, v, cur)))
        }
        "bit_flip" => {
            let i = rng.usize(out.len());
            let bit = rng.below(8);
            out[i] ^= 1 << bit;
            Some((out, Expect::Survive, format!("bit {} flipped at byte {}", bit, i)))
        }
        "byte_stuck" => {
            let i = rng.usize(out.len());
            out[i] = *rng.pick(&[0x00u8, 0x7f, 0x80, 0xff]);
            let v = out[i];
            Some((out, Expect::Survive, format!("byte {} stuck at {:#04x}", i, v)))
        }
        "block_zeroed" | "block_dropped" | "block_duplicated" => {
            let a = rng.usize(out.len());
            let n = 1 + rng.usize((out.len() - a).min(64));
            match kind {
                "block_zeroed" => {
                    for x in &mut out[a..a + n] {
                        *x = 0;
                    }
                }
                "block_dropped" => {
                    out.drain(a..a + n);
                }
                _ => {
                    let blk = out[a..a + n].to_vec();
                    let tail = out.split_off(a + n);
                    out.extend_from_slice(&blk);
                    out.extend_from_slice(&tail);
                }
            }
            Some((out, Expect::Survive, format!("{} of {} bytes at {}", kind, n, a)))
        }
        "splice_two_files" => {
            if other.is_empty() {
                return None;
            }
            let a = rng.usize(out.len());
            let c = rng.usize(other.len());
            out.truncate(a);
            out.extend_from_slice(&other[c..]);
            Some((out, Expect::Survive, format!("torn replace: first {} bytes of the new file, then the old file from byte {}", a, c)))
        }
        "utoff_extreme" => {
            // one or two types get an offset from the far ends of the i32 range
            let n = 1 + rng.usize(2);
            let mut desc = String::new();
            for _ in 0..n {
                let k = rng.usize(lay.typecnt);
                let v = *rng.pick(&[i32::MAX, i32::MIN, i32::MIN + 1, 2_000_000_000, -2_000_000_000, 1 << 30, -(1 << 30), 86_400, -86_400, 93_600]);
                let at = lay.ttinfo.0 + k * 6;
                out[at..at + 4].copy_from_slice(&v.to_be_bytes());
                desc.push_str(&format!(" utoff of type {} set to {};", k, v));
            }
            Some((out, Expect::Survive, desc))
        }
        "time_extreme" => {
            if lay.timecnt == 0 {
                return None;
            }
            // the first or last transition time moved to the far ends of its range
            let ts = lay.time_size;
            let (k, v) = if rng.chance(1, 2) {
                (0, *rng.pick(&[i64::MIN, i64::MIN + 1, i64::MIN + 86_400, -(1i64 << 62)]))
            } else {
                (lay.timecnt - 1, *rng.pick(&[i64::MAX, i64::MAX - 1, i64::MAX - 86_400, 1i64 << 62]))
            };
            let at = lay.times.0 + k * ts;
            if ts == 8 {
                out[at..at + 8].copy_from_slice(&v.to_be_bytes());
            } else {
                let v32 = if v < 0 { i32::MIN } else { i32::MAX };
                out[at..at + 4].copy_from_slice(&v32.to_be_bytes());
            }
            Some((out, Expect::Survive, format!("transition {} moved to {}", k, v)))
        }
        "leap_extreme" => {
            let rec = lay.time_size + 4;
            let n = (lay.leaps.1 - lay.leaps.0) / rec;
            if n == 0 {
                return None;
            }
            let k = rng.usize(n);
            let at = lay.leaps.0 + k * rec;
            let mut desc = String::new();
            if rng.chance(2, 3) {
                let v = *rng.pick(&[i64::MIN, i64::MIN + 1, i64::MAX, i64::MAX - 1, -1, 0, 1i64 << 62, -(1i64 << 62)]);
                if lay.time_size == 8 {
                    out[at..at + 8].copy_from_slice(&v.to_be_bytes());
                } else {
                    let v32 = if v < 0 { i32::MIN } else { i32::MAX };
                    out[at..at + 4].copy_from_slice(&v32.to_be_bytes());
                }
                desc.push_str(&format!("time of leap record {} set to {};", k, v));
            }
            if desc.is_empty() || rng.chance(1, 2) {
                let c = *rng.pick(&[i32::MIN, i32::MIN + 1, i32::MAX, -1, 0, 2, 1 << 30]);
                out[at + lay.time_size..at + rec].copy_from_slice(&c.to_be_bytes());
                desc.push_str(&format!(" correction of leap record {} set to {};", k, c));
            }
            Some((out, Expect::Survive, desc))
        }
        "isdst_not_boolean" => {
            let k = rng.usize(lay.typecnt);
            out[lay.ttinfo.0 + k * 6 + 4] = 2 + rng.below(254) as u8;
            Some((out, Expect::Reject, format!("isdst of type {} not 0/1", k)))
        }
        _ => None,
    }
}

// ---------------------------------------------------------------- TZ string mutations

const STR_KINDS: [&str; 10] = [
    "truncate_at_every_k",
    "byte_flip",
    "char_insert",
    "char_delete",
    "field_month_13",
    "field_week_0_or_6",
    "field_weekday_7",
    "field_julian_out_of_range",
    "field_hour_out_of_range",
    "trailing_text",
];

/// Expectation for an arbitrary TZ string: inside the grammar (by the reference reader) it must
/// be accepted and read back exactly; otherwise it only has to be survived.
fn string_input(s: &[u8], extended: bool, what: String, force_reject: bool) -> Input {
    let mode = if extended { "tzstr-ext" } else { "tzstr" };
    let (expect, dbg) = if force_reject {
        (Expect::Reject, None)
    } else {
        match parse_posix_tz(s, extended) {
            Some(rule) => (Expect::Accept, Some(ZoneModel::from_rule(rule).debug())),
            None => (Expect::Survive, None),
        }
    };
    Input { mode: mode.into(), hex: hex(s), expect, expected_debug: dbg, what }
}

fn replace_first(s: &str, from: &str, to: &str) -> Option<String> {
    s.find(from).map(|p| format!("{}{}{}", &s[..p], to, &s[p + from.len()..]))
}

/// `std offset dst [offset]` (the part of a rule string before the first comma) split into its four
/// fields; `None` when the text does not have that shape.
fn split_rule_head(head: &str) -> Option<(&str, &str, &str, &str)> {
    fn name_len(s: &str) -> Option<usize> {
        if s.starts_with('<') {
            s.find('>').map(|p| p + 1)
        } else {
            let n = s.bytes().take_while(|c| c.is_ascii_alphabetic()).count();
            if n == 0 { None } else { Some(n) }
        }
    }
    fn off_len(s: &str) -> usize {
        s.bytes().take_while(|c| c.is_ascii_digit() || matches!(c, b':' | b'+' | b'-')).count()
    }
    let n1 = name_len(head)?;
    let (std_name, rest) = head.split_at(n1);
    let o1 = off_len(rest);
    if o1 == 0 {
        return None;
    }
    let (std_off, rest) = rest.split_at(o1);
    let n2 = name_len(rest)?;
    let (dst_name, rest) = rest.split_at(n2);
    let o2 = off_len(rest);
    if o2 != rest.len() {
        return None;
    }
    Some((std_name, std_off, dst_name, rest))
}

/// Constructed out-of-range variants of a valid `std offset dst [offset],start[/time],end[/time]` string.
fn out_of_range_variants(rule: &Rule, extended: bool, rng: &mut Rng) -> Vec<(String, String)> {
    use crate::model::Day;
    let mut out = Vec::new();
    let a = match rule {
        Rule::Alt(a) => a.clone(),
        Rule::Fixed(t) => {
            // offset hour 25, minute 60
            let name = if t.abbr.bytes().all(|c| c.is_ascii_alphabetic()) { t.abbr.clone() } else { format!("<{}>", t.abbr) };
            out.push((format!("{}25", name), "field_hour_out_of_range".to_string()));
            out.push((format!("{}5:60", name), "field_hour_out_of_range".to_string()));
            out.push((format!("{}5:00:60", name), "field_hour_out_of_range".to_string()));
            return out;
        }
    };
    let render = |a: &crate::model::AltRule, rng: &mut Rng| tzif::rule_string(&Rule::Alt(a.clone()), rng);
    let base = render(&a, rng);
    // swap one day field for an out-of-range one by editing the rendered text of a known day
    let mut b = a.clone();
    b.start = Day::M { m: 5, w: 2, d: 3 };
    let s = render(&b, rng);
    for (from, to, kind) in [
        ("M5.2.3", "M13.2.3", "field_month_13"),
        ("M5.2.3", "M0.2.3", "field_month_13"),
        ("M5.2.3", "M5.0.3", "field_week_0_or_6"),
        ("M5.2.3", "M5.6.3", "field_week_0_or_6"),
        ("M5.2.3", "M5.2.7", "field_weekday_7"),
        ("M5.2.3", "J0", "field_julian_out_of_range"),
        ("M5.2.3", "J366", "field_julian_out_of_range"),
        ("M5.2.3", "366", "field_julian_out_of_range"),
        // text handling: the day letters are upper case, digits are the ASCII ones
        ("M5.2.3", "m5.2.3", "field_letter_case"),
        ("M5.2.3", "j60", "field_letter_case"),
        ("M5.2.3", "M5.2.\u{ff13}", "field_non_ascii_digit"),
        ("M5.2.3", "M\u{665}.2.3", "field_non_ascii_digit"),
        ("M5.2.3", "M5 .2.3", "field_inner_blank"),
    ] {
        if let Some(x) = replace_first(&s, from, to) {
            out.push((x, kind.to_string()));
        }
    }
    let mut c = a.clone();
    c.start_time = 3 * 3600 + 7 * 60 + 9; // rendered as 3:07:09 or 03:07:09
    let s = render(&c, rng);
    let hour = if extended { "168" } else { "25" };
    for from in ["/03:07:09", "/3:07:09"] {
        for to in [format!("/{}:07:09", hour), "/3:60:09".to_string(), "/3:07:60".to_string()] {
            if let Some(x) = replace_first(&s, from, &to) {
                out.push((x, "field_hour_out_of_range".to_string()));
            }
        }
    }
    // the std name cut to two characters, and the std offset removed
    if let Some(pos) = base.find(|c: char| c.is_ascii_digit() || c == '+' || c == '-') {
        let (name, rest) = base.split_at(pos);
        if !name.starts_with('<') && name.len() >= 3 {
            out.push((format!("{}{}", &name[..2], rest), "name_too_short".to_string()));
            // an unquoted name is ASCII letters only
            out.push((format!("\u{c5}{}{}", &name[1..], rest), "name_non_ascii".to_string()));
            out.push((format!("{}\u{e9}{}", name, rest), "name_non_ascii".to_string()));
            let after_off = rest.find(|c: char| c.is_ascii_alphabetic() || c == '<').unwrap_or(rest.len());
            out.push((format!("{}{}", name, &rest[after_off..]), "offset_missing".to_string()));
        }
    }
    // out-of-range std / dst offsets inside a two-name rule (the dst offset is optional, but
    // when it is written it has to be a valid one: an error there must not turn into the default)
    if let Some(comma) = base.find(',') {
        let (head, tail) = base.split_at(comma);
        if let Some((std_name, std_off, dst_name, dst_off)) = split_rule_head(head) {
            for bad in ["25", "5:60", "5:00:60", "-25", "+25:00"] {
                out.push((format!("{}{}{}{}{}", std_name, std_off, dst_name, bad, tail), "field_hour_out_of_range".to_string()));
            }
            for bad in ["25", "5:60", "-5:00:60"] {
                out.push((format!("{}{}{}{}{}", std_name, bad, dst_name, dst_off, tail), "field_hour_out_of_range".to_string()));
            }
        }
    }
    out.push((format!("{}x", base), "trailing_text".to_string()));
    out.push((format!("{},M3.2.0", base), "trailing_text".to_string()));
    out
}

// ---------------------------------------------------------------- public route

/// `Local` with `TZ=:/sim/f` under read chunking and EINTR must answer as the accessor does.
fn public_route(bytes: &Arc<Vec<u8>>, z: Option<&Zone>, rng: &mut Rng, fired: &mut BTreeMap<String, u64>) -> Result<Option<String>, String> {
    public_route_tz(Some(bytes), ":/sim/f", z, rng, fired)
}

/// `Local` with the given TZ value (and, if given, the file `/sim/f`) must answer as `z` does,
/// or as UTC when there is no zone (the reader rejects the source and no system zone exists).
fn public_route_tz(bytes: Option<&Arc<Vec<u8>>>, tz: &str, z: Option<&Zone>, rng: &mut Rng, fired: &mut BTreeMap<String, u64>) -> Result<Option<String>, String> {
    let utc = Zone::utc();
    let rejected = z.is_none();
    let z = z.unwrap_or(&utc);
    let mut fs = Fs::new();
    let mut pool = Vec::new();
    if let Some(b) = bytes {
        fs.insert("/sim/f".into(), Inode { bytes: b.clone(), mtime_ns: 1, zone: 0 });
        pool.push(b.clone());
    }
    let st = State { clock_ns: 1_700_000_000_000_000_000, tz: Some(tz.to_string()), fs, sysname: None };
    let world = SimWorld::new(st, pool, crate::plan::SEAM_CAP);
    let mut w = Worker::spawn(&world);
    let mut faults = ConvFaults::default();
    faults.chunk = *rng.pick(&[0usize, 1, 2, 3, 5, 16, 31, 32, 33, 64, 1000]);
    for _ in 0..rng.usize(4) {
        faults.eintr_at.push(rng.below(12) as u32);
    }
    faults.eintr_at.sort();
    faults.eintr_at.dedup();
    let mut probes: Vec<(Api, i64)> = Vec::new();
    let (trans, _) = debug_numbers(z);
    for &t in trans.iter().take(6) {
        if t > -6_000_000_000_000 && t < 6_000_000_000_000 {
            probes.push((Api::FromUtc, t));
            probes.push((Api::FromUtc, t - 1));
            probes.push((Api::FromLocal, t));
        }
    }
    for _ in 0..6 {
        let t = rng.range(-3_000_000_000, 5_000_000_000);
        probes.push((if rng.chance(1, 2) { Api::TimestampOpt } else { Api::OffsetFromLocal }, t));
    }
    world.begin_conv(0, 0, &[], &faults);
    let got = w.batch(probes.clone())?;
    let (_, ctx) = world.end_conv();
    for f in ctx.fired_faults {
        *fired.entry(format!("read.{}", f)).or_insert(0) += 1;
    }
    let _ = Admin::UnsetTz;
    for ((api, t), g) in probes.iter().zip(got) {
        let want = answer(z, *api, *t);
        if let Res::Err(e) = &want {
            // the zone's answer is not representable through the public API (|offset| >= 24 h):
            // no particular answer is demanded, but an accepted zone must not make Local panic.
            // (If the lookup itself fails or panics at reader level, the totality sweep reports it.)
            if e.contains("not representable") {
                if let Res::Panic(p) = &g {
                    return Ok(Some(format!(
                        "PANIC {:?}(t={}) via TZ={:?}: the zone is accepted and answers at reader level ({}), but Local panicked: {}",
                        api, t, tz, e, p
                    )));
                }
            }
            continue;
        }
        if g != want {
            return Ok(Some(format!(
                "{:?}(t={}) via TZ={:?} (chunk {}, EINTR at {:?}) returned {:?}, {} answers {:?}",
                api,
                t,
                tz,
                faults.chunk,
                faults.eintr_at,
                g,
                if rejected { "the reader rejects these bytes, so the UTC fallback (no system zone)" } else { "the zone read from the same bytes" },
                want
            )));
        }
    }
    Ok(None)
}

/// Class of a public-route problem: a panic is named after the file it happened in (line numbers
/// move with unrelated edits), anything else is a wrong answer.
fn public_class(detail: &str) -> String {
    if detail.starts_with("PANIC") {
        let loc = panic_loc(detail);
        let file = loc.rsplit_once(':').map(|x| x.0).unwrap_or(&loc).to_string();
        let msg = detail.rsplit("Local panicked: ").next().unwrap_or("").split(" @ ").next().unwrap_or("");
        format!("public-route-panic:{}:{}", file, msg)
    } else {
        "public-route-differs".to_string()
    }
}

// ---------------------------------------------------------------- shards

#[derive(Serialize, Deserialize, Default)]
pub struct Shard16 {
    cases: u64,
    tally: Tally,
    fired: BTreeMap<String, u64>,
    truncation_points: u64,
    files_fully_truncated: u64,
    n_problems: u64,
    /// (case, class, detail, input)
    problems: Vec<(u64, String, String, Value)>,
    samples: Vec<Value>,
}

fn add_tally(a: &mut Tally, b: &Tally) {
    a.parses += b.parses;
    a.accepted += b.accepted;
    a.rejected += b.rejected;
    a.must_accept += b.must_accept;
    a.must_reject += b.must_reject;
    a.survive_only += b.survive_only;
    a.survive_accepted += b.survive_accepted;
    a.totality_sweeps += b.totality_sweeps;
    a.max_alloc_ratio_permille = a.max_alloc_ratio_permille.max(b.max_alloc_ratio_permille);
    a.public_route_checks += b.public_route_checks;
    a.content_checks += b.content_checks;
}

struct Sink<'a> {
    sh: &'a mut Shard16,
    case: u64,
}

impl<'a> Sink<'a> {
    fn problem(&mut self, p: Problem) {
        self.sh.n_problems += 1;
        if self.sh.problems.iter().filter(|x| x.1 == p.class).count() < 3 {
            self.sh.problems.push((self.case, p.class, p.detail, serde_json::to_value(&p.input).unwrap()));
        }
    }
    fn eval(&mut self, input: Input, bytes: &[u8], rng: &mut Rng) {
        capture_hook(&input.what, bytes);
        HEART.with(|h| {
            if let Some(hb) = h.borrow().as_ref() {
                hb.beat(&input.what, bytes);
            }
        });
        let mut t = Tally::default();
        let p = evaluate(&input, bytes, rng, &mut t);
        add_tally(&mut self.sh.tally, &t);
        if let Some(p) = p {
            self.problem(p);
        }
    }
}

fn zone_cfg(tier: &str) -> ZoneGenCfg {
    ZoneGenCfg { limit: 89_999, leaps: true, extreme_times: true, max_trans: if tier == "thorough" { 300 } else { 60 } }
}

fn faults_per_file(tier: &str) -> usize {
    if tier == "thorough" {
        200
    } else {
        100
    }
}

pub fn shard(part: Part, seed: u64, tier: &str, from: u64, to: u64, out: &str) -> i32 {
    let mut sh = Shard16::default();
    let mut distinct: HashSet<u64> = HashSet::new();
    let sys = if part == Part::Sys { SysZones::load() } else { SysZones { zones: vec![] } };
    let hb = crate::runner::Heartbeat::start(out, std::time::Duration::from_secs(30));
    HEART.with(|h| *h.borrow_mut() = Some(hb));
    for i in from..to {
        let mut rng = Rng::new(crate::rng::derive(seed, part.stream(), i));
        sh.cases += 1;
        match part {
            Part::Files => {
                let g = gen::gen_zone(&mut rng, &zone_cfg(tier));
                let (bytes, lay) = tzif::write(&g.model, &g.opts);
                let want = g.model.debug();
                let what = format!("file written from model #{} (v{}, {} transitions, {} types, {} leap records, footer {:?})", i, g.opts.version, g.model.trans.len(), g.model.types.len(), g.model.leaps.len(), g.opts.footer);
                let mut h = 0xcbf2_9ce4_8422_2325u64;
                fnv(&mut h, &bytes);
                distinct.insert(h);
                if sh.samples.len() < 2 {
                    sh.samples.push(json!({"part": "files", "what": what, "bytes": bytes.len(), "hex_head": hex(&bytes[..bytes.len().min(64)])}));
                }
                let mut sink = Sink { sh: &mut sh, case: i };
                // A. accepted and read back exactly
                sink.eval(Input { mode: "tzif".into(), hex: hex(&bytes), expect: Expect::Accept, expected_debug: Some(want), what: what.clone() }, &bytes, &mut rng);
                // A'. the public route under chunked / interrupted reads
                if i % 4 == 0 {
                    if let Ok(Ok(z)) = guarded(|| Zone::from_tzif(&bytes)) {
                        let arc = Arc::new(bytes.clone());
                        sink.sh.tally.public_route_checks += 1;
                        match public_route(&arc, Some(&z), &mut rng, &mut sink.sh.fired) {
                            Ok(None) => {}
                            Ok(Some(d)) => sink.problem(Problem {
                                class: public_class(&d),
                                detail: d,
                                input: Input { mode: "tzif".into(), hex: hex(&bytes), expect: Expect::Accept, expected_debug: None, what: what.clone() },
                            }),
                            Err(e) => sink.problem(Problem {
                                class: "public-route-hang".into(),
                                detail: e,
                                input: Input { mode: "tzif".into(), hex: hex(&bytes), expect: Expect::Accept, expected_debug: None, what: what.clone() },
                            }),
                        }
                    }
                }
                // B1. every truncation point
                for k in 0..bytes.len() {
                    sink.eval(
                        Input { mode: "tzif".into(), hex: String::new(), expect: Expect::Reject, expected_debug: None, what: format!("{} truncated to {} of {} bytes", what, k, bytes.len()) },
                        &bytes[..k],
                        &mut rng,
                    );
                }
                sink.sh.truncation_points += bytes.len() as u64;
                sink.sh.files_fully_truncated += 1;
                *sink.sh.fired.entry("truncation".into()).or_insert(0) += bytes.len() as u64;
                // B2. structured and unstructured faults
                let other = {
                    let g2 = gen::gen_zone(&mut rng, &zone_cfg(tier));
                    tzif::write(&g2.model, &g2.opts).0
                };
                // B3. a UT/local indicator set without its standard/wall indicator (RFC 8536: MUST
                // NOT happen): an inconsistent file, written by the same writer
                {
                    let nt = g.model.types.len();
                    let mut o2 = g.opts.clone();
                    o2.isut = (0..nt).map(|_| rng.below(2) as u8).collect();
                    let one = rng.usize(nt);
                    o2.isut[one] = 1;
                    if rng.chance(1, 2) {
                        o2.isstd = vec![];
                    } else {
                        o2.isstd = o2.isut.clone();
                        o2.isstd[one] = 0;
                    }
                    let (fb, _) = tzif::write(&g.model, &o2);
                    *sink.sh.fired.entry("isut_without_isstd".into()).or_insert(0) += 1;
                    sink.eval(Input { mode: "tzif".into(), hex: String::new(), expect: Expect::Reject, expected_debug: None, what: format!("{}; fault: UT/local indicator of type {} set while its standard/wall indicator is {}", what, one, if o2.isstd.is_empty() { "absent" } else { "0" }) }, &fb, &mut rng);
                }
                // B4. consistent files that announce no local time type at all, or no abbreviation
                // bytes (RFC 8536: typecnt and charcnt MUST NOT be zero)
                {
                    let version = 1 + rng.below(3) as u8;
                    let o0 = tzif::TzifOpts { version, fat_v1: rng.chance(1, 2), isstd: vec![], isut: vec![], share_suffix: false, footer: String::new() };
                    let m0 = ZoneModel { types: vec![], trans: vec![], leaps: vec![], rule: None };
                    let (fb, _) = tzif::write(&m0, &o0);
                    *sink.sh.fired.entry("zero_types".into()).or_insert(0) += 1;
                    sink.eval(Input { mode: "tzif".into(), hex: String::new(), expect: Expect::Reject, expected_debug: None, what: format!("consistent v{} file with typecnt = 0 and timecnt = 0", version) }, &fb, &mut rng);
                    // one type with an empty abbreviation, then the single NUL of the table removed
                    let m1 = ZoneModel { types: vec![crate::model::LType { utoff: gen::gen_utoff(&mut rng, 50_000), dst: false, abbr: String::new() }], trans: vec![], leaps: vec![], rule: None };
                    let (mut fb, lay1) = tzif::write(&m1, &o0);
                    fb.remove(lay1.chars.0);
                    let at = lay1.hdr + 20 + 4 * 5;
                    fb[at..at + 4].copy_from_slice(&0u32.to_be_bytes());
                    *sink.sh.fired.entry("zero_chars".into()).or_insert(0) += 1;
                    sink.eval(Input { mode: "tzif".into(), hex: String::new(), expect: Expect::Reject, expected_debug: None, what: format!("consistent v{} file with one type and charcnt = 0", version) }, &fb, &mut rng);
                }
                // B5. further files the same writer produces from a model that breaks one MUST of
                // RFC 8536 (each is consistent as a byte layout, so only the semantic check can
                // reject it)
                {
                    let nt = g.model.types.len();
                    let mut variants: Vec<(&str, ZoneModel, tzif::TzifOpts, String)> = Vec::new();
                    {
                        // an indicator array whose length is neither 0 nor typecnt
                        let len = if nt >= 2 && rng.chance(2, 3) { 1 + rng.usize(nt - 1) } else { nt + 1 + rng.usize(3) };
                        let mut o2 = g.opts.clone();
                        if rng.chance(1, 2) {
                            o2.isstd = vec![0; len];
                            o2.isut = vec![];
                            variants.push(("isstd_count_mismatch", g.model.clone(), o2, format!("isstdcnt = {} with typecnt = {}", len, nt)));
                        } else {
                            o2.isstd = if rng.chance(1, 2) { vec![1; nt] } else { vec![] };
                            o2.isut = vec![0; len];
                            variants.push(("isut_count_mismatch", g.model.clone(), o2, format!("isutcnt = {} with typecnt = {}", len, nt)));
                        }
                    }
                    {
                        let mut m2 = g.model.clone();
                        let k = rng.usize(nt);
                        m2.types[k].utoff = i32::MIN;
                        if m2.rule.is_none() || m2.trans.last().map_or(true, |t| t.1 != k) {
                            variants.push(("utoff_minimum", m2, g.opts.clone(), format!("utoff of type {} is -2^31", k)));
                        }
                    }
                    {
                        // leap-second tables that break the rules for the first record, the order
                        // or the spacing, or the step of the correction
                        let mut m2 = g.model.clone();
                        let v1 = g.opts.version == 1;
                        let base = rng.range(0, 300_000_000);
                        let (leaps, why): (Vec<(i64, i32)>, &str) = match rng.below(5) {
                            0 => (vec![(-1 - rng.range(0, 1_000_000), 1)], "first leap second before 1970"),
                            1 => (vec![(base, 2)], "first correction is 2"),
                            2 => (vec![(base, 1), (base + 40 * gen::DAY, 3)], "correction steps by 2"),
                            3 => (vec![(base, 1), (base + 10 * gen::DAY, 2)], "leap seconds 10 days apart"),
                            _ => (vec![(base + 40 * gen::DAY, 1), (base, 2)], "leap seconds not ascending"),
                        };
                        if !v1 || leaps.iter().all(|l| l.0 <= i32::MAX as i64 && l.0 >= i32::MIN as i64) {
                            m2.leaps = leaps;
                            variants.push(("leap_table_invalid", m2, g.opts.clone(), why.to_string()));
                        }
                    }
                    if let (Some(r), Some(&(last_t, last_i))) = (&g.model.rule, g.model.trans.last()) {
                        // the footer no longer matches the type in force from the last transition on
                        let want = r.at(last_t).utoff;
                        if let Some(k) = g.model.types.iter().position(|t| t.utoff != want) {
                            let mut m2 = g.model.clone();
                            let n = m2.trans.len();
                            m2.trans[n - 1].1 = k;
                            let _ = last_i;
                            variants.push(("footer_inconsistent_with_last_transition", m2, g.opts.clone(), format!("last transition switched to type {} (offset differs from the footer rule's)", k)));
                        }
                    }
                    for (kind, m2, o2, desc) in variants {
                        let (fb, _) = tzif::write(&m2, &o2);
                        *sink.sh.fired.entry(kind.to_string()).or_insert(0) += 1;
                        sink.eval(Input { mode: "tzif".into(), hex: String::new(), expect: Expect::Reject, expected_debug: None, what: format!("{}; invalid by construction: {}", what, desc) }, &fb, &mut rng);
                    }
                }
                for _ in 0..faults_per_file(tier) {
                    let kind = *rng.pick(&FAULT_KINDS);
                    if let Some((fb, expect, desc)) = inject(kind, &bytes, &lay, &other, &mut rng) {
                        *sink.sh.fired.entry(kind.to_string()).or_insert(0) += 1;
                        let mut h = 0xcbf2_9ce4_8422_2325u64;
                        fnv(&mut h, &fb);
                        distinct.insert(h);
                        let fwhat = format!("{}; fault: {}", what, desc);
                        sink.eval(Input { mode: "tzif".into(), hex: String::new(), expect, expected_debug: None, what: fwhat.clone() }, &fb, &mut rng);
                        // a sample of the faulted files also goes behind Local: whatever the
                        // reader makes of them, the public route must agree with it (or fall back
                        // to UTC) and must not panic
                        if rng.chance(1, 16) {
                            let z = guarded(|| Zone::from_tzif(&fb)).ok().and_then(|r| r.ok());
                            let arc = Arc::new(fb.clone());
                            sink.sh.tally.public_route_checks += 1;
                            *sink.sh.fired.entry("public_route_on_faulted_file".into()).or_insert(0) += 1;
                            let input = Input { mode: "tzif".into(), hex: hex(&fb), expect: Expect::Survive, expected_debug: None, what: fwhat.clone() };
                            match public_route(&arc, z.as_ref(), &mut rng, &mut sink.sh.fired) {
                                Ok(None) => {}
                                Ok(Some(d)) => sink.problem(Problem { class: public_class(&d), detail: d, input }),
                                Err(e) => sink.problem(Problem { class: "public-route-hang".into(), detail: e, input }),
                            }
                        }
                    }
                }
            }
            Part::Sys => {
                let (label, bytes, model) = match sys.zones.get(i as usize) {
                    Some(z) => z,
                    None => continue,
                };
                let what = format!("system zoneinfo file {}", label);
                let mut sink = Sink { sh: &mut sh, case: i };
                let dbg = model.as_ref().map(|m| m.debug());
                sink.eval(Input { mode: "tzif".into(), hex: String::new(), expect: Expect::Accept, expected_debug: dbg, what: what.clone() }, bytes, &mut rng);
                let mut h = 0xcbf2_9ce4_8422_2325u64;
                fnv(&mut h, bytes);
                distinct.insert(h);
                // truncation sweep on a sample of points (every point in thorough)
                let step = if tier == "thorough" { 1 } else { 1 + bytes.len() / 64 };
                let mut k = 0;
                while k < bytes.len() {
                    sink.eval(Input { mode: "tzif".into(), hex: String::new(), expect: Expect::Reject, expected_debug: None, what: format!("{} truncated to {} bytes", what, k) }, &bytes[..k], &mut rng);
                    sink.sh.truncation_points += 1;
                    k += step;
                }
                // the last few bytes always (footer tears)
                for k in bytes.len().saturating_sub(40)..bytes.len() {
                    sink.eval(Input { mode: "tzif".into(), hex: String::new(), expect: Expect::Reject, expected_debug: None, what: format!("{} truncated to {} bytes", what, k) }, &bytes[..k], &mut rng);
                    sink.sh.truncation_points += 1;
                }
                for _ in 0..20 {
                    let kind = *rng.pick(&["bit_flip", "byte_stuck", "block_zeroed", "block_dropped", "block_duplicated"]);
                    if let Some((fb, expect, desc)) = inject(kind, bytes, &Layout::default(), &[], &mut rng) {
                        *sink.sh.fired.entry(kind.to_string()).or_insert(0) += 1;
                        sink.eval(Input { mode: "tzif".into(), hex: String::new(), expect, expected_debug: None, what: format!("{}; fault: {}", what, desc) }, &fb, &mut rng);
                    }
                }
            }
            Part::Strings => {
                let extended = rng.chance(1, 3);
                let rule = gen::gen_rule(&mut rng, false, extended, 89_999);
                let s = tzif::rule_string(&rule, &mut rng);
                let mut h = 0xcbf2_9ce4_8422_2325u64;
                fnv(&mut h, s.as_bytes());
                distinct.insert(h);
                if sh.samples.len() < 3 {
                    sh.samples.push(json!({"part": "strings", "tz": s, "extended": extended}));
                }
                let mut sink = Sink { sh: &mut sh, case: i };
                // valid: accepted, read back exactly what was written
                let want = ZoneModel::from_rule(rule.clone()).debug();
                sink.eval(
                    Input { mode: if extended { "tzstr-ext" } else { "tzstr" }.into(), hex: hex(s.as_bytes()), expect: Expect::Accept, expected_debug: Some(want), what: format!("TZ string {:?}", s) },
                    s.as_bytes(),
                    &mut rng,
                );
                // truncation at every k
                for k in 0..s.len() {
                    *sink.sh.fired.entry(STR_KINDS[0].into()).or_insert(0) += 1;
                    let t = &s.as_bytes()[..k];
                    sink.eval(string_input(t, extended, format!("TZ string {:?} truncated to {} bytes", s, k), false), t, &mut rng);
                }
                // random byte-level mutations
                for _ in 0..20 {
                    let mut b = s.as_bytes().to_vec();
                    let kind = match rng.below(3) {
                        0 => {
                            let i = rng.usize(b.len());
                            b[i] = if rng.chance(1, 2) { b[i] ^ (1 << rng.below(8)) } else { *rng.pick(b"0123456789,./:<>+-MJ \0\xff") };
                            "byte_flip"
                        }
                        1 => {
                            let i = rng.usize(b.len() + 1);
                            b.insert(i, *rng.pick(b"0123456789,./:<>+-MJAz \n"));
                            "char_insert"
                        }
                        _ => {
                            let i = rng.usize(b.len());
                            b.remove(i);
                            "char_delete"
                        }
                    };
                    *sink.sh.fired.entry(kind.into()).or_insert(0) += 1;
                    let swhat = format!("TZ string {:?} after {}: {:?}", s, kind, String::from_utf8_lossy(&b));
                    sink.eval(string_input(&b, extended, swhat.clone(), false), &b, &mut rng);
                    // a sample of the mutated strings also goes into TZ itself: Local must use the
                    // rule if the reader accepts it and fall back to UTC (no system zone here)
                    // otherwise - and never panic. Strings with surrounding whitespace, a leading
                    // colon or the literal name "localtime" are left out (the statement is silent
                    // on them or gives them another meaning).
                    if rng.chance(1, 6) {
                        if let Ok(text) = std::str::from_utf8(&b) {
                            let plain = !text.is_empty()
                                && text.trim_matches(|c: char| c.is_ascii_whitespace()) == text
                                && !text.starts_with(':')
                                && text != "localtime";
                            if plain {
                                let z = guarded(|| Zone::from_posix_rule(text.as_bytes(), false)).ok().and_then(|r| r.ok());
                                {
                                    sink.sh.tally.public_route_checks += 1;
                                    *sink.sh.fired.entry("public_route_on_tz_string".into()).or_insert(0) += 1;
                                    let input = Input { mode: "tzstr".into(), hex: hex(&b), expect: Expect::Survive, expected_debug: None, what: swhat.clone() };
                                    match public_route_tz(None, text, z.as_ref(), &mut rng, &mut sink.sh.fired) {
                                        Ok(None) => {}
                                        Ok(Some(d)) => sink.problem(Problem { class: public_class(&d), detail: d, input }),
                                        Err(e) => sink.problem(Problem { class: "public-route-hang".into(), detail: e, input }),
                                    }
                                }
                            }
                        }
                    }
                }
                // constructed out-of-range fields: rejected
                for (bad, kind) in out_of_range_variants(&rule, extended, &mut rng) {
                    *sink.sh.fired.entry(kind.clone()).or_insert(0) += 1;
                    sink.eval(string_input(bad.as_bytes(), extended, format!("TZ string {:?} ({})", bad, kind), true), bad.as_bytes(), &mut rng);
                }
            }
            Part::Random => {
                // unstructured input: random bytes behind a plausible header
                let mut b: Vec<u8> = Vec::new();
                let n = rng.usize(400);
                match rng.below(4) {
                    0 => {
                        for _ in 0..n {
                            b.push(rng.below(256) as u8);
                        }
                    }
                    _ => {
                        b.extend_from_slice(b"TZif");
                        b.push(*rng.pick(&[0u8, b'2', b'3', b'4', 1]));
                        b.extend_from_slice(&[0u8; 15]);
                        for _ in 0..6 {
                            let v: u32 = match rng.below(6) {
                                0 => 0,
                                1 => 1,
                                2 => rng.below(8) as u32,
                                3 => rng.below(300) as u32,
                                4 => *rng.pick(&[u32::MAX, 1 << 31, (1 << 31) - 1, 1 << 28, 1 << 29, 1 << 30]),
                                _ => rng.next() as u32,
                            };
                            b.extend_from_slice(&v.to_be_bytes());
                        }
                        for _ in 0..n {
                            b.push(if rng.chance(1, 3) { 0 } else { rng.below(256) as u8 });
                        }
                    }
                }
                let mut h = 0xcbf2_9ce4_8422_2325u64;
                fnv(&mut h, &b);
                distinct.insert(h);
                *sh.fired.entry("random_bytes".into()).or_insert(0) += 1;
                let mut sink = Sink { sh: &mut sh, case: i };
                sink.eval(Input { mode: "tzif".into(), hex: String::new(), expect: Expect::Survive, expected_debug: None, what: format!("random input #{} ({} bytes)", i, b.len()) }, &b, &mut rng);
                // and as a TZ string
                let ext = rng.chance(1, 2);
                sink.eval(string_input(&b, ext, format!("random bytes #{} as TZ string", i), false), &b, &mut rng);
            }
        }
    }
    // stop the watchdog (this function also runs inside the parent process, to re-capture inputs)
    HEART.with(|h| h.borrow_mut().take());
    std::fs::write(format!("{}.json", out), serde_json::to_string(&sh).unwrap()).expect("write shard");
    crate::runner::write_hashes(std::path::Path::new(&format!("{}.ilv", out)), &distinct);
    0
}

fn budgets(tier: &str, scale: f64, nsys: usize) -> Vec<(Part, u64)> {
    let s = |n: u64| ((n as f64 * scale) as u64).max(1);
    if tier == "thorough" {
        vec![(Part::Files, s(1_000_000)), (Part::Sys, nsys as u64), (Part::Strings, s(10_000_000)), (Part::Random, s(200_000_000))]
    } else {
        vec![(Part::Files, s(12_000)), (Part::Sys, nsys as u64), (Part::Strings, s(150_000)), (Part::Random, s(2_000_000))]
    }
}

pub fn run(opts: &Opts, only: Option<Part>) -> i32 {
    let start = Instant::now();
    let nsys = SysZones::load().zones.len();
    let mut findings: Vec<Finding> = Vec::new();
    let mut tally = Tally::default();
    let mut fired: BTreeMap<String, u64> = BTreeMap::new();
    let mut distinct: HashSet<u64> = HashSet::new();
    let mut samples: Vec<Value> = Vec::new();
    let mut per_part = Vec::new();
    let (mut cases, mut trunc, mut full) = (0u64, 0u64, 0u64);
    let mut seen: Vec<String> = Vec::new();
    for (part, n) in budgets(&opts.tier, opts.scale, nsys) {
        if let Some(o) = only {
            if o != part {
                continue;
            }
        }
        if n == 0 {
            continue;
        }
        let t0 = Instant::now();
        let (dir, procs) = crate::runner::spawn_shards(
            &["C16".to_string(), part.name().to_string(), opts.seed.to_string(), opts.tier.clone()],
            n,
            opts.threads,
        );
        let mut c_prob = 0;
        for k in 0..procs {
            if let Ok(h) = std::fs::read_to_string(dir.join(format!("{}.hang", k))) {
                let v: Value = serde_json::from_str(&h).unwrap_or(Value::Null);
                let what = v["what"].as_str().unwrap_or("?").to_string();
                if !seen.contains(&"hang".to_string()) {
                    seen.push("hang".into());
                    let mode = if what.contains("TZ string") { "tzstr" } else { "tzif" };
                    findings.push(Finding {
                        property: "C16".into(),
                        signature: format!("C16/{}/hang", part.name()),
                        detail: format!("no progress for 30 s while reading: {}", what),
                        replay: json!({"kind": "c16-input", "class": "hang", "part": part.name(), "case": 0, "seed": opts.seed, "tier": opts.tier,
                            "input": {"mode": mode, "hex": v["hex"], "expect": "Survive", "expected_debug": null, "what": what}}),
                    });
                }
                continue;
            }
            let text = std::fs::read_to_string(dir.join(format!("{}.json", k))).expect("read shard");
            let r: Shard16 = serde_json::from_str(&text).expect("parse shard");
            crate::runner::read_hashes(&dir.join(format!("{}.ilv", k)), &mut distinct);
            cases += r.cases;
            trunc += r.truncation_points;
            full += r.files_fully_truncated;
            add_tally(&mut tally, &r.tally);
            for (k, v) in r.fired {
                *fired.entry(k).or_insert(0) += v;
            }
            for s in r.samples {
                if samples.iter().filter(|x: &&Value| x["part"] == s["part"]).count() < 2 {
                    samples.push(s);
                }
            }
            c_prob += r.n_problems;
            for (i, class, detail, input) in r.problems {
                let key = format!("{}/{}", part.name(), class);
                if seen.contains(&key) {
                    continue;
                }
                seen.push(key);
                findings.push(Finding {
                    property: "C16".into(),
                    signature: format!("C16/{}/{}", part.name(), class),
                    detail: detail.clone(),
                    replay: json!({"kind": "c16-input", "class": class, "part": part.name(), "case": i, "seed": opts.seed, "tier": opts.tier, "input": input}),
                });
            }
        }
        let _ = std::fs::remove_dir_all(&dir);
        per_part.push(json!({"part": part.name(), "cases": n, "problems": c_prob, "wall_s": t0.elapsed().as_secs_f64()}));
    }
    // replay files need the input bytes: regenerate them for the findings we keep
    for f in findings.iter_mut() {
        fill_input_bytes(f);
        let class = f.replay["class"].as_str().unwrap_or("").to_string();
        let mode = f.replay["input"]["mode"].as_str().unwrap_or("tzif").to_string();
        let expect = f.replay["input"]["expect"].as_str().unwrap_or("").to_string();
        let original = unhex(f.replay["input"]["hex"].as_str().unwrap_or("")).unwrap_or_default();
        if expect == "Survive" && class != "hang" && !class.starts_with("public-route") && !original.is_empty() {
            let (min, used) = shrink_survive(&mode, &original, &class, 4000);
            f.replay["original_bytes"] = json!(original.len());
            f.replay["minimise_executions"] = json!(used);
            f.replay["input"]["hex"] = json!(hex(&min));
            f.replay["input"]["what"] = json!(format!("{} [minimised from {} to {} bytes]", f.replay["input"]["what"].as_str().unwrap_or(""), original.len(), min.len()));
        } else if expect == "Accept" && f.replay["part"] == "files" && (class == "valid-input-rejected" || class == "readback-differs") {
            if let Some((b, dbg, used)) = shrink_model(opts.seed, &opts.tier, f.replay["case"].as_u64().unwrap_or(0), &class) {
                f.replay["original_bytes"] = json!(original.len());
                f.replay["minimise_executions"] = json!(used);
                f.replay["input"]["hex"] = json!(hex(&b));
                f.replay["input"]["expected_debug"] = json!(dbg);
                f.replay["input"]["what"] = json!(format!("{} [model minimised: {} -> {} bytes]", f.replay["input"]["what"].as_str().unwrap_or(""), original.len(), b.len()));
            }
        }
    }
    let (code, new) = report("C16", &findings);
    let wall = start.elapsed().as_secs_f64();
    let cov = json!({
        "evaluations": tally.parses,
        "distinct_nontrivial": distinct.len(),
        "rule": "one evaluation = one parse of one input (a writer-produced TZif file, a system zoneinfo file, a grammar-generated TZ string, a truncation at byte k, a structured or unstructured fault applied to one of those, or random bytes behind a plausible header) together with its allocation probe and, if accepted, the totality sweep of both lookups. distinct = distinct content hash of the generated base inputs and of the faulted variants of generated files (truncations are counted separately); every such input is non-trivial (it reaches the reader).",
        "exhaustive": false,
        "samples": samples,
        "per_part": per_part,
        "cases": cases,
        "truncation_points_enumerated": trunc,
        "generated_files_truncated_at_every_byte": full,
        "verdicts": tally,
        "fault_kinds_fired": fired,
        "parses_per_hour": (tally.parses as f64 / wall * 3600.0) as u64,
        "real_components": ["tz_info parser, rule grammar, validation, both lookups (accessor)", "Local + unix.rs + std read_to_end under chunked / interrupted reads (public route sample)"],
        "stubbed_components": ["storage: bytes come from the model-driven writer and the fault injectors; file system, TZ and clock of the public route are simulated"],
    });
    write_evidence(
        opts,
        start,
        Evidence {
            property: "C16".into(),
            level: "fault_enumeration".into(),
            coverage: cov,
            assumptions: vec![
                "must-reject is asserted only where the injector constructed an invalid input; must-accept only for writer output within chrono's documented restrictions (3-7 character alphanumeric/+- abbreviations, footer consistent with the last transition) and for strings the reference reader places inside the two POSIX forms".into(),
                "allocation bound: largest single request <= 8 x input + 4 KiB, total <= 64 x input + 16 KiB (counting allocator)".into(),
                "overflow counts as a panic: the simulator is built with overflow-checks and debug-assertions on".into(),
                "truncation is enumerated completely per generated file; all other fault kinds are sampled".into(),
            ],
            violations: new,
        },
    );
    code
}

/// Delta-debug the bytes of an input that only has to be *survived* (so that any shrunk input
/// carries the same obligation): drop chunks, then zero bytes, while the same class persists.
fn shrink_survive(mode: &str, bytes: &[u8], class: &str, budget: usize) -> (Vec<u8>, usize) {
    let fails = |b: &[u8]| -> bool {
        let input = Input { mode: mode.to_string(), hex: String::new(), expect: Expect::Survive, expected_debug: None, what: String::new() };
        let mut t = Tally::default();
        let mut rng = Rng::new(99);
        evaluate(&input, b, &mut rng, &mut t).map_or(false, |p| p.class == class)
    };
    let mut best = bytes.to_vec();
    let mut used = 0;
    if !fails(&best) {
        return (best, 1);
    }
    let mut chunk = (best.len() / 2).max(1);
    while chunk >= 1 && used < budget {
        let mut i = 0;
        let mut progress = false;
        while i < best.len() && used < budget {
            let end = (i + chunk).min(best.len());
            let mut cand = best.clone();
            cand.drain(i..end);
            used += 1;
            if fails(&cand) {
                best = cand;
                progress = true;
            } else {
                i += chunk;
            }
        }
        if chunk == 1 && !progress {
            break;
        }
        if !progress {
            chunk /= 2;
        }
    }
    for i in 0..best.len() {
        if used >= budget {
            break;
        }
        if best[i] != 0 {
            let mut cand = best.clone();
            cand[i] = 0;
            used += 1;
            if fails(&cand) {
                best = cand;
            }
        }
    }
    (best, used)
}

/// Shrink the *model* behind a writer-produced file that was wrongly rejected or read back
/// differently: drop transitions (not the last one, which the footer must match), leap records
/// and indicator arrays while the same class persists. Every candidate is again writer output.
fn shrink_model(seed: u64, tier: &str, case: u64, class: &str) -> Option<(Vec<u8>, String, usize)> {
    let mut rng = Rng::new(crate::rng::derive(seed, Part::Files.stream(), case));
    let g = gen::gen_zone(&mut rng, &zone_cfg(tier));
    let fails = |m: &ZoneModel, o: &tzif::TzifOpts| -> bool {
        let (b, _) = tzif::write(m, o);
        let input = Input { mode: "tzif".into(), hex: String::new(), expect: Expect::Accept, expected_debug: Some(m.debug()), what: String::new() };
        let mut t = Tally::default();
        let mut r = Rng::new(99);
        evaluate(&input, &b, &mut r, &mut t).map_or(false, |p| p.class == class)
    };
    let (mut m, mut o) = (g.model.clone(), g.opts.clone());
    if !fails(&m, &o) {
        return None;
    }
    let mut used = 1;
    if !m.leaps.is_empty() {
        let mut c = m.clone();
        c.leaps.clear();
        used += 1;
        if fails(&c, &o) {
            m = c;
        }
    }
    if !o.isstd.is_empty() {
        let mut c = o.clone();
        c.isstd.clear();
        c.isut.clear();
        used += 1;
        if fails(&m, &c) {
            o = c;
        }
    }
    let mut k = 0;
    while m.trans.len() > 1 && k + 1 < m.trans.len() {
        let mut c = m.clone();
        c.trans.remove(k);
        used += 1;
        if fails(&c, &o) {
            m = c;
        } else {
            k += 1;
        }
    }
    let (b, _) = tzif::write(&m, &o);
    Some((b, m.debug(), used))
}

/// Regenerate the bytes of a problem input (shards do not ship them) by re-running its case.
fn fill_input_bytes(f: &mut Finding) {
    let part = Part::parse(f.replay["part"].as_str().unwrap_or("")).unwrap_or(Part::Random);
    let case = f.replay["case"].as_u64().unwrap_or(0);
    let seed = f.replay["seed"].as_u64().unwrap_or(0);
    let tier = f.replay["tier"].as_str().unwrap_or("quick").to_string();
    let what = f.replay["input"]["what"].as_str().unwrap_or("").to_string();
    if !f.replay["input"]["hex"].as_str().unwrap_or("").is_empty() {
        return;
    }
    // re-run the case in-process with a recorder that captures the bytes of the input whose
    // description matches
    let found = crate::check16::recapture(part, seed, &tier, case, &what);
    if let Some(b) = found {
        f.replay["input"]["hex"] = json!(hex(&b));
    }
}

thread_local! {
    static HEART: std::cell::RefCell<Option<crate::runner::Heartbeat>> = const { std::cell::RefCell::new(None) };
    static CAPTURE: std::cell::RefCell<Option<(String, Option<Vec<u8>>)>> = const { std::cell::RefCell::new(None) };
}

/// Re-run one case and capture the bytes of the input described by `what`.
pub fn recapture(part: Part, seed: u64, tier: &str, case: u64, what: &str) -> Option<Vec<u8>> {
    CAPTURE.with(|c| *c.borrow_mut() = Some((what.to_string(), None)));
    let dir = crate::runner::verif_dir().join("sim").join("target").join("shards");
    let _ = std::fs::create_dir_all(&dir);
    let out = dir.join(format!("recapture-{}", std::process::id()));
    let outs = out.to_string_lossy().into_owned();
    shard_capture(part, seed, tier, case, &outs);
    let _ = std::fs::remove_file(format!("{}.json", outs));
    let _ = std::fs::remove_file(format!("{}.ilv", outs));
    CAPTURE.with(|c| c.borrow_mut().take()).and_then(|x| x.1)
}

fn shard_capture(part: Part, seed: u64, tier: &str, case: u64, out: &str) {
    shard(part, seed, tier, case, case + 1, out);
}

/// Called by `evaluate` through `Sink::eval`: remember the bytes if this is the wanted input.
pub fn capture_hook(what: &str, bytes: &[u8]) {
    CAPTURE.with(|c| {
        if let Some((want, slot)) = c.borrow_mut().as_mut() {
            if slot.is_none() && want == what {
                *slot = Some(bytes.to_vec());
            }
        }
    });
}

pub fn replay(v: &Value) -> i32 {
    let input: Input = match serde_json::from_value(v["input"].clone()) {
        Ok(i) => i,
        Err(e) => {
            eprintln!("harness error: bad input in replay file: {}", e);
            return 2;
        }
    };
    let bytes = match unhex(&input.hex) {
        Some(b) => b,
        None => {
            eprintln!("harness error: bad hex in replay file");
            return 2;
        }
    };
    let class = v["class"].as_str().unwrap_or("");
    if class == "hang" {
        // a replay that hangs would be no use: run it on a thread and give it the same 30 s
        let (tx, rx) = std::sync::mpsc::channel();
        let (mode, b2) = (input.mode.clone(), bytes.clone());
        std::thread::spawn(move || {
            let r = guarded(|| parse_input(&mode, &b2).map(|z| z.debug()));
            let _ = tx.send(format!("{:?}", r));
        });
        println!("input ({} bytes, {}): {}", bytes.len(), input.mode, input.what);
        return match rx.recv_timeout(std::time::Duration::from_secs(30)) {
            Ok(r) => {
                println!("reader returned: {}", r);
                println!("not reproduced");
                0
            }
            Err(_) => {
                println!("hang :: no answer within 30 s");
                println!("VIOLATION property=C16 replay=<this file>");
                std::process::exit(1);
            }
        };
    }
    if class.starts_with("public-route") {
        // problems seen through Local: put the input behind TZ again (several probe sets)
        println!("input ({} bytes, {}): {}", bytes.len(), input.mode, input.what);
        let z = guarded(|| parse_input(if input.mode == "tzif" { "tzif" } else { "tzstr" }, &bytes)).ok().and_then(|r| r.ok());
        let mut fired = BTreeMap::new();
        for k in 0..40u64 {
            let mut rng = Rng::new(crate::rng::derive(v["seed"].as_u64().unwrap_or(0), 1698, k));
            let r = if input.mode == "tzif" {
                public_route(&Arc::new(bytes.clone()), z.as_ref(), &mut rng, &mut fired)
            } else {
                public_route_tz(None, &String::from_utf8_lossy(&bytes), z.as_ref(), &mut rng, &mut fired)
            };
            match r {
                Ok(None) => {}
                Ok(Some(d)) => {
                    let c = public_class(&d);
                    println!("{} :: {}", c, d);
                    if c == class {
                        println!("VIOLATION property=C16 replay=<this file>");
                    } else {
                        println!("a different problem than the recorded one ({})", class);
                    }
                    return 1;
                }
                Err(e) => {
                    println!("public-route-hang :: {}", e);
                    return 1;
                }
            }
        }
        println!("not reproduced");
        return 0;
    }
    let mut rng = Rng::new(crate::rng::derive(v["seed"].as_u64().unwrap_or(0), 1699, v["case"].as_u64().unwrap_or(0)));
    let mut t = Tally::default();
    println!("input ({} bytes, {}): {}", bytes.len(), input.mode, input.what);
    println!("expectation: {:?}", input.expect);
    match evaluate(&input, &bytes, &mut rng, &mut t) {
        Some(p) => {
            println!("{} :: {}", p.class, p.detail);
            if p.class == class {
                println!("VIOLATION property=C16 replay=<this file>");
                1
            } else {
                println!("a different problem than the recorded one ({})", class);
                1
            }
        }
        None => {
            println!("not reproduced");
            0
        }
    }
}
