//! C18 oracle: which zone does the environment designate, and is a conversion's answer the
//! answer of a zone that was designated recently enough?  Written from the statement; nothing
//! here mirrors chrono's cache.

use std::collections::{BTreeSet, HashMap};
use std::sync::Arc;

use chrono::__verif::Zone;
use chrono::MappedLocalTime;

use crate::plan::{ConvRec, Outcome};
use crate::worker::{naive, Api, Res};
use crate::world::{lookup, ConvFaults, Fs, Hist, Node, ZONEINFO_DIRS};

/// The zone a world state designates.
#[derive(Clone, Debug)]
pub enum Desig {
    File(Arc<Vec<u8>>),
    Rule(String),
    Utc,
}

impl Desig {
    pub fn key(&self) -> String {
        match self {
            Desig::File(b) => format!("file:{:p}:{}", Arc::as_ptr(b), b.len()),
            Desig::Rule(s) => format!("rule:{}", s),
            Desig::Utc => "utc".to_string(),
        }
    }
    pub fn describe(&self, pool: &[crate::plan::PoolZone]) -> String {
        match self {
            Desig::File(b) => match pool.iter().find(|z| Arc::ptr_eq(&z.bytes, b) || *z.bytes == **b) {
                Some(z) => format!("file[{}]", z.label),
                None => format!("file[{} bytes]", b.len()),
            },
            Desig::Rule(s) => format!("rule[{}]", s),
            Desig::Utc => "UTC".into(),
        }
    }
}

/// Zones parsed by chrono's own reader (through the accessor), memoised per run.
#[derive(Default)]
pub struct ZoneCache {
    files: HashMap<usize, Option<Zone>>,
    rules: HashMap<String, Option<Zone>>,
    utc: Option<Zone>,
}

impl ZoneCache {
    pub fn file(&mut self, b: &Arc<Vec<u8>>) -> Option<&Zone> {
        self.files
            .entry(Arc::as_ptr(b) as usize)
            .or_insert_with(|| crate::worker::guarded(|| Zone::from_tzif(b).ok()).ok().flatten())
            .as_ref()
    }
    pub fn rule(&mut self, s: &str) -> Option<&Zone> {
        self.rules
            .entry(s.to_string())
            .or_insert_with(|| {
                crate::worker::guarded(|| Zone::from_posix_rule(s.as_bytes(), false).ok()).ok().flatten()
            })
            .as_ref()
    }
    pub fn get(&mut self, d: &Desig) -> Option<&Zone> {
        match d {
            Desig::File(b) => self.file(b),
            Desig::Rule(s) => self.rule(s),
            Desig::Utc => {
                if self.utc.is_none() {
                    self.utc = Some(Zone::utc());
                }
                self.utc.as_ref()
            }
        }
    }
}

type Look<'a> = &'a mut dyn FnMut(&str) -> Node;

fn readable(look: Look, path: &str, f: &ConvFaults) -> Option<Arc<Vec<u8>>> {
    if f.open_blocked(path).is_some() || f.read_blocked(path).is_some() {
        return None;
    }
    match look(path) {
        Node::File(b) => Some(b),
        _ => None,
    }
}

fn openable(look: Look, path: &str, f: &ConvFaults) -> bool {
    f.open_blocked(path).is_none() && look(path) != Node::Absent
}

/// Resolve the file a TZ value names: absolute as is, otherwise the first zoneinfo directory
/// in which it can be opened.
fn resolve(look: Look, name: &str, f: &ConvFaults) -> Option<String> {
    if name.starts_with('/') {
        return if openable(look, name, f) { Some(name.to_string()) } else { None };
    }
    for d in ZONEINFO_DIRS {
        // what Path::join does with an empty or relative component
        let p = if name.is_empty() { format!("{}/", d) } else { format!("{}/{}", d, name) };
        if openable(look, &p, f) {
            return Some(p);
        }
    }
    None
}

/// The zone the statement of C18 designates, given the TZ value, the system zone name and a
/// view of the file system (with the given transient faults).
pub fn designate_view(
    tz: &Option<String>,
    sysname: &Option<String>,
    look: Look,
    f: &ConvFaults,
    zc: &mut ZoneCache,
) -> Desig {
    fn file_zone(look: Look, path: &str, f: &ConvFaults, zc: &mut ZoneCache) -> Option<Desig> {
        let b = readable(look, path, f)?;
        zc.file(&b)?;
        Some(Desig::File(b))
    }
    let primary: Option<Desig> = match tz {
        None => file_zone(look, "/etc/localtime", f, zc),
        Some(s) if s.is_empty() => return Desig::Utc,
        Some(s) if s.starts_with(':') => match resolve(look, &s[1..], f) {
            Some(p) => file_zone(look, &p, f, zc),
            None => None,
        },
        Some(s) => match resolve(look, s, f) {
            Some(p) => file_zone(look, &p, f, zc),
            None => {
                let t = s.trim_matches(|c: char| c.is_ascii_whitespace());
                if zc.rule(t).is_some() {
                    Some(Desig::Rule(t.to_string()))
                } else {
                    None
                }
            }
        },
    };
    if let Some(d) = primary {
        return d;
    }
    if let Some(n) = sysname {
        if let Some(d) = file_zone(look, &format!("/usr/share/zoneinfo/{}", n), f, zc) {
            return d;
        }
    }
    Desig::Utc
}

/// `designate_view` on one snapshot of the file system.
pub fn designate(
    tz: &Option<String>,
    fs: &Fs,
    sysname: &Option<String>,
    f: &ConvFaults,
    zc: &mut ZoneCache,
) -> Desig {
    designate_view(tz, sysname, &mut |p: &str| lookup(fs, p), f, zc)
}

/// Every zone a load can produce when files are replaced or deleted while it runs: the TZ value
/// is one of `tzs`, the system name one of `sysnames`, and each path it touches shows any of the
/// contents it had in one of the snapshots `fss` (one choice per path and load). Enumerated
/// with an odometer over the choices actually consulted; capped.
pub fn designate_nd(
    tzs: &[Option<String>],
    sysnames: &[Option<String>],
    fss: &[Arc<Fs>],
    f: &ConvFaults,
    zc: &mut ZoneCache,
) -> Vec<Desig> {
    let mut out: Vec<Desig> = Vec::new();
    let mut keys: BTreeSet<String> = BTreeSet::new();
    let mut evals = 0;
    for tz in tzs {
        for sn in sysnames {
            let mut odo: Vec<usize> = Vec::new();
            loop {
                // one evaluation under the current odometer
                let mut arity: Vec<usize> = Vec::new();
                let mut memo: Vec<(String, Node)> = Vec::new();
                let d = {
                    let mut look = |p: &str| -> Node {
                        if let Some((_, n)) = memo.iter().find(|(q, _)| q == p) {
                            return n.clone();
                        }
                        let mut opts: Vec<Node> = Vec::new();
                        for fs in fss {
                            let n = lookup(fs, p);
                            if !opts.contains(&n) {
                                opts.push(n);
                            }
                        }
                        let k = arity.len();
                        arity.push(opts.len());
                        let c = odo.get(k).copied().unwrap_or(0).min(opts.len() - 1);
                        let n = opts[c].clone();
                        memo.push((p.to_string(), n.clone()));
                        n
                    };
                    designate_view(tz, sn, &mut look, f, zc)
                };
                if keys.insert(d.key()) {
                    out.push(d);
                }
                evals += 1;
                // advance the odometer over the choices that were actually consulted
                odo.resize(arity.len(), 0);
                let mut i = arity.len();
                let mut advanced = false;
                while i > 0 {
                    i -= 1;
                    if odo[i] + 1 < arity[i] {
                        odo[i] += 1;
                        odo.truncate(i + 1);
                        advanced = true;
                        break;
                    }
                }
                if !advanced || evals > 512 {
                    break;
                }
            }
        }
    }
    out
}

/// The answer zone `z` gives for a probe, in the shape of a conversion result.
pub fn answer(z: &Zone, api: Api, t: i64) -> Res {
    let r = crate::worker::guarded(|| {
        if !api.is_local() {
            match z.offset_at(t) {
                Ok((off, _, _)) => {
                    if off.abs() < 86_400 {
                        Res::Single(off)
                    } else {
                        Res::Err(format!("offset {} not representable", off))
                    }
                }
                Err(e) => Res::Err(e),
            }
        } else {
            let n = match naive(t) {
                Some(n) => n,
                None => return Res::Err("probe out of range".into()),
            };
            let ok = |o: i32| o.abs() < 86_400;
            match z.offsets_for_local(n) {
                Ok(MappedLocalTime::Single(a)) if ok(a.0) => Res::Single(a.0),
                Ok(MappedLocalTime::Ambiguous(a, b)) if ok(a.0) && ok(b.0) => Res::Ambiguous(a.0, b.0),
                Ok(MappedLocalTime::None) => Res::None,
                Ok(_) => Res::Err("offset not representable".into()),
                Err(e) => Res::Err(e),
            }
        }
    });
    match r {
        Ok(r) => r,
        Err(p) => Res::Err(format!("accessor panicked: {}", p)),
    }
}

#[derive(Clone, Debug)]
pub struct Violation {
    /// oracle rule: "R1-stale-or-foreign-zone", "R2-panic", "R2-hang", "R3-glue"
    pub rule: String,
    pub step: usize,
    pub detail: String,
}

#[derive(Clone, Copy, Debug, PartialEq, Eq)]
pub enum Freshness {
    /// the statement's one-second rule
    Strict,
    /// clock faults: any zone designated during the thread's life
    Lifetime,
}

#[derive(Default)]
pub struct JudgeStats {
    pub r1_evals: u64,
    pub r1_discriminating: u64,
    pub r1_after_tz_change: u64,
    pub fault_relaxations_used: u64,
    pub racing_file_updates: u64,
    pub q_exclusions: u64,
}

fn in_force(hist: &[Hist], seq: u64) -> usize {
    // last entry with hist.seq <= seq
    hist.partition_point(|h| h.seq <= seq).saturating_sub(1)
}

/// Judge every conversion of a run.
pub fn judge(
    o: &Outcome,
    pool: &[crate::plan::PoolZone],
    fresh: Freshness,
    stats: &mut JudgeStats,
) -> Vec<Violation> {
    let mut out = Vec::new();
    let mut zc = ZoneCache::default();
    let hist = &o.hist;
    // memo: designation per (hist index)
    let mut dmemo: HashMap<usize, Desig> = HashMap::new();
    let none = ConvFaults::default();
    // per worker: seq of its first invocation; extra candidates from faulted conversions
    let mut first_inv: HashMap<usize, u64> = HashMap::new();
    let mut extra: HashMap<usize, Vec<(Option<String>, Desig, u64)>> = HashMap::new();
    // per worker: for every earlier conversion of this thread, its invocation and the TZ values
    // that can explain its result at all (rule Q: once the thread has demonstrably used another
    // TZ value, a zone for the current value must have been loaded after that)
    let mut used: HashMap<usize, Vec<(u64, BTreeSet<Option<String>>)>> = HashMap::new();
    // every answer any designation of this run gives (to decide whether a check discriminates)
    for c in &o.convs {
        if c.first_on_worker {
            // a fresh thread (first use, or respawned): nothing of the old thread's life counts
            first_inv.insert(c.worker, c.inv_seq);
            extra.remove(&c.worker);
            used.remove(&c.worker);
        }
        match &c.res {
            Res::Panic(p) => {
                let rule = if p.starts_with("HANG") || p.contains("seam-call cap") { "R2-hang" } else { "R2-panic" };
                out.push(Violation { rule: rule.into(), step: c.step, detail: p.clone() });
                continue;
            }
            Res::Glue(g) => {
                out.push(Violation { rule: "R3-glue".into(), step: c.step, detail: g.clone() });
                continue;
            }
            Res::Err(e) => {
                out.push(Violation { rule: "harness".into(), step: c.step, detail: e.clone() });
                continue;
            }
            _ => {}
        }
        let lo = in_force(hist, first_inv[&c.worker]);
        let hi = in_force(hist, c.ret_seq);
        let inv_idx = in_force(hist, c.inv_seq);
        // V: TZ values in force at some moment of [t_inv - 1 s, return]
        let v_lo = if c.first_on_worker {
            inv_idx
        } else {
            match fresh {
                Freshness::Lifetime => lo,
                Freshness::Strict => {
                    let limit = c.t_inv_ns as i128 - 1_000_000_000;
                    // the state in force one second before the invocation: the last entry at
                    // or before the invocation whose time is <= limit (the initial state has
                    // been in force since before the run started)
                    let mut found = 0;
                    for i in 0..=inv_idx {
                        if (hist[i].clock_ns as i128) <= limit {
                            found = i;
                        }
                    }
                    found
                }
            }
        };
        let mut v: BTreeSet<Option<String>> = BTreeSet::new();
        for h in &hist[v_lo..=hi] {
            v.insert(h.tz.clone());
        }
        // files replaced or deleted while the conversion ran: every zone a load racing with
        // those updates can produce joins this worker's candidates
        if c.fired_inject.iter().any(|(_, k)| *k == "replace_file" || *k == "delete_file" || *k == "set_system_zone") {
            let mut tzs: Vec<Option<String>> = Vec::new();
            let mut sns: Vec<Option<String>> = Vec::new();
            let mut fss: Vec<Arc<Fs>> = Vec::new();
            for h in &hist[inv_idx..=hi] {
                if !tzs.contains(&h.tz) {
                    tzs.push(h.tz.clone());
                }
                if !sns.contains(&h.sysname) {
                    sns.push(h.sysname.clone());
                }
                if !fss.iter().any(|x| Arc::ptr_eq(x, &h.fs)) {
                    fss.push(h.fs.clone());
                }
            }
            for tz in &tzs {
                for d in designate_nd(std::slice::from_ref(tz), &sns, &fss, &c.faults, &mut zc) {
                    extra.entry(c.worker).or_default().push((tz.clone(), d, c.inv_seq));
                }
            }
            stats.racing_file_updates += 1;
        }
        // faulted conversion: the perturbed world joins this worker's candidates
        if !c.fired_faults.is_empty() {
            for i in inv_idx..=hi {
                let h = &hist[i];
                let d = designate(&h.tz, &h.fs, &h.sysname, &c.faults, &mut zc);
                extra.entry(c.worker).or_default().push((h.tz.clone(), d, c.inv_seq));
            }
        }
        // rule Q: the latest earlier conversion of this thread that no zone designated under
        // `tz` can explain marks the earliest moment a zone for `tz` can have been loaded
        let floor_seq = |tz: &Option<String>, used: &HashMap<usize, Vec<(u64, BTreeSet<Option<String>>)>>| -> u64 {
            used.get(&c.worker)
                .map(|v| v.iter().filter(|(_, ex)| !ex.contains(tz)).map(|(s, _)| *s).max().unwrap_or(0))
                .unwrap_or(0)
        };
        // candidates
        let mut cands: Vec<Desig> = Vec::new();
        let mut keys: BTreeSet<String> = BTreeSet::new();
        let cand_lo = if c.first_on_worker { inv_idx } else { lo };
        for i in cand_lo..=hi {
            let h = &hist[i];
            if !v.contains(&h.tz) {
                continue;
            }
            let fl = floor_seq(&h.tz, &used);
            if fl > 0 && i < in_force(hist, fl) {
                stats.q_exclusions += 1;
                continue;
            }
            let d = dmemo
                .entry(i)
                .or_insert_with(|| designate(&h.tz, &h.fs, &h.sysname, &none, &mut zc))
                .clone();
            if keys.insert(d.key()) {
                cands.push(d);
            }
        }
        let n_regular = cands.len();
        if let Some(ex) = extra.get(&c.worker) {
            for (tz, d, seq) in ex {
                if v.contains(tz) && *seq >= floor_seq(tz, &used) && keys.insert(d.key()) {
                    cands.push(d.clone());
                }
            }
        }
        stats.r1_evals += 1;
        let mut matched = None;
        let mut answers = Vec::new();
        for (k, d) in cands.iter().enumerate() {
            let a = match zc.get(d) {
                Some(z) => answer(z, c.api, c.t),
                None => Res::Err("designated zone does not parse".into()),
            };
            if a == c.res && matched.is_none() {
                matched = Some(k);
            }
            answers.push((d.describe(pool), a));
        }
        if let Some(k) = matched {
            if k >= n_regular {
                stats.fault_relaxations_used += 1;
            }
            // which TZ values can explain this result at all (over the thread's whole life)
            let mut ex: BTreeSet<Option<String>> = BTreeSet::new();
            for i in lo..=hi {
                let h = &hist[i];
                if ex.contains(&h.tz) {
                    continue;
                }
                let d = dmemo
                    .entry(i)
                    .or_insert_with(|| designate(&h.tz, &h.fs, &h.sysname, &none, &mut zc))
                    .clone();
                if let Some(z) = zc.get(&d) {
                    if answer(z, c.api, c.t) == c.res {
                        ex.insert(h.tz.clone());
                    }
                }
            }
            if let Some(e) = extra.get(&c.worker) {
                for (tz, d, _) in e {
                    if !ex.contains(tz) {
                        if let Some(z) = zc.get(d) {
                            if answer(z, c.api, c.t) == c.res {
                                ex.insert(tz.clone());
                            }
                        }
                    }
                }
            }
            used.entry(c.worker).or_default().push((c.inv_seq, ex));
        }
        // discriminating? some zone designated at another moment of the run (or any pool zone)
        // would have answered differently
        let mut other_differs = false;
        for i in 0..hist.len() {
            let h = &hist[i];
            let d = dmemo
                .entry(i)
                .or_insert_with(|| designate(&h.tz, &h.fs, &h.sysname, &none, &mut zc))
                .clone();
            if keys.contains(&d.key()) {
                continue;
            }
            if let Some(z) = zc.get(&d) {
                if answer(z, c.api, c.t) != c.res {
                    other_differs = true;
                    break;
                }
            }
        }
        if other_differs {
            stats.r1_discriminating += 1;
            if hist[lo..=hi].iter().any(|h| h.tz != hist[hi].tz) {
                stats.r1_after_tz_change += 1;
            }
        }
        if matched.is_none() {
            let tzs: Vec<String> = v.iter().map(|t| format!("{:?}", t)).collect();
            out.push(Violation {
                rule: "R1-stale-or-foreign-zone".into(),
                step: c.step,
                detail: format!(
                    "W{} {:?}(t={}) returned {:?}; admissible (TZ values in force since 1 s before the call: {}): {}",
                    c.worker,
                    c.api,
                    c.t,
                    c.res,
                    tzs.join(", "),
                    answers.iter().map(|(d, a)| format!("{} -> {:?}", d, a)).collect::<Vec<_>>().join("; ")
                ),
            });
        }
    }
    out
}

pub fn conv_signature(c: &ConvRec) -> String {
    let seams: Vec<&str> = c.seams.iter().map(|s| s.name()).collect();
    format!("{}:{}", if c.api.is_local() { "L" } else { "U" }, seams.join(","))
}
