//! Plans: a run written down completely. Executing a plan is a pure function of the plan.

use std::collections::BTreeMap;
use std::sync::Arc;

use serde::{Deserialize, Serialize};

use crate::worker::{Api, Res, Worker};
use crate::world::{Admin, ConvFaults, Event, Fs, Hist, Inode, Seam, SimWorld, State};

pub mod hexbytes {
    use serde::{Deserialize, Deserializer, Serializer};
    use std::sync::Arc;

    pub fn hex(b: &[u8]) -> String {
        let mut s = String::with_capacity(b.len() * 2);
        for x in b {
            s.push_str(&format!("{:02x}", x));
        }
        s
    }
    pub fn unhex(s: &str) -> Option<Vec<u8>> {
        if s.len() % 2 != 0 {
            return None;
        }
        (0..s.len()).step_by(2).map(|i| u8::from_str_radix(s.get(i..i + 2)?, 16).ok()).collect()
    }
    pub fn serialize<S: Serializer>(b: &Arc<Vec<u8>>, s: S) -> Result<S::Ok, S::Error> {
        s.serialize_str(&hex(b))
    }
    pub fn deserialize<'de, D: Deserializer<'de>>(d: D) -> Result<Arc<Vec<u8>>, D::Error> {
        let s = String::deserialize(d)?;
        unhex(&s).map(Arc::new).ok_or_else(|| serde::de::Error::custom("bad hex"))
    }
}

#[derive(Clone, Debug, Serialize, Deserialize)]
pub struct PoolZone {
    pub label: String,
    /// TZif bytes (empty for zones that exist only as a TZ rule string)
    #[serde(with = "hexbytes")]
    pub bytes: Arc<Vec<u8>>,
    /// the POSIX rule string, for rule zones
    pub rule: Option<String>,
}

#[derive(Clone, Debug, Serialize, Deserialize)]
pub struct ConvStep {
    pub worker: usize,
    pub api: Api,
    /// Unix time (instant APIs) or wall-clock seconds (wall-clock APIs)
    pub t: i64,
    /// admin events to run before the seam call with the given ordinal
    pub inject: Vec<(u32, Vec<Admin>)>,
    pub faults: ConvFaults,
}

#[derive(Clone, Debug, Serialize, Deserialize)]
pub enum Step {
    Admin(Admin),
    Conv(ConvStep),
    /// the worker's thread exits; its next conversion runs on a freshly spawned thread
    Respawn(usize),
}

#[derive(Clone, Debug, Serialize, Deserialize)]
pub struct Plan {
    pub property: String,
    pub config: String,
    pub seed: u64,
    pub run: u64,
    pub pool: Vec<PoolZone>,
    pub clock0_ns: u64,
    pub tz0: Option<String>,
    /// (path, pool index)
    pub files0: Vec<(String, usize)>,
    pub sys0: Option<String>,
    pub steps: Vec<Step>,
}

#[derive(Clone, Debug)]
pub struct ConvRec {
    pub step: usize,
    pub worker: usize,
    pub api: Api,
    pub t: i64,
    pub inv_seq: u64,
    pub ret_seq: u64,
    pub t_inv_ns: u64,
    pub res: Res,
    pub seams: Vec<Seam>,
    pub opened: Vec<String>,
    pub fired_inject: Vec<(Seam, &'static str)>,
    pub fired_faults: Vec<&'static str>,
    pub faults: ConvFaults,
    pub first_on_worker: bool,
}

pub struct Outcome {
    pub log: Vec<Event>,
    pub hist: Vec<Hist>,
    pub convs: Vec<ConvRec>,
    pub sim_ns: u64,
    pub threads_spawned: usize,
}

pub const SEAM_CAP: u32 = 200_000;

pub fn initial_world(plan: &Plan) -> SimWorld {
    let pool: Vec<Arc<Vec<u8>>> = plan.pool.iter().map(|z| z.bytes.clone()).collect();
    let mut fs = Fs::new();
    for (path, k) in &plan.files0 {
        fs.insert(
            path.clone(),
            Inode {
                bytes: pool[*k].clone(),
                // installed long before the run starts
                mtime_ns: plan.clock0_ns.saturating_sub(86_400_000_000_000),
                zone: *k,
            },
        );
    }
    let st = State { clock_ns: plan.clock0_ns, tz: plan.tz0.clone(), fs, sysname: plan.sys0.clone() };
    SimWorld::new(st, pool, SEAM_CAP)
}

/// Execute a plan. Workers are spawned on first use; each is a fresh OS thread.
pub fn exec(plan: &Plan) -> Outcome {
    let world = initial_world(plan);
    let mut workers: BTreeMap<usize, Worker> = BTreeMap::new();
    let mut convs = Vec::new();
    let mut spawned = 0;
    for (i, step) in plan.steps.iter().enumerate() {
        match step {
            Step::Admin(op) => world.lock().apply(op, None),
            Step::Respawn(w) => {
                workers.remove(w);
            }
            Step::Conv(c) => {
                let first = !workers.contains_key(&c.worker);
                if first {
                    workers.insert(c.worker, Worker::spawn(&world));
                    spawned += 1;
                }
                let w = workers.get_mut(&c.worker).unwrap();
                let inv_seq = world.begin_conv(c.worker, convs.len(), &c.inject, &c.faults);
                let t_inv_ns = world.lock().st.clock_ns;
                let res = match w.convert(c.api, c.t) {
                    Ok(r) => r,
                    Err(e) => Res::Panic(format!("HANG: {}", e)),
                };
                let (ret_seq, ctx) = world.end_conv();
                let hung = w.hung;
                convs.push(ConvRec {
                    step: i,
                    worker: c.worker,
                    api: c.api,
                    t: c.t,
                    inv_seq,
                    ret_seq,
                    t_inv_ns,
                    res,
                    seams: ctx.seams,
                    opened: ctx.opened,
                    fired_inject: ctx.fired_inject,
                    fired_faults: ctx.fired_faults,
                    faults: c.faults.clone(),
                    first_on_worker: first,
                });
                if hung {
                    break;
                }
            }
        }
    }
    drop(workers);
    let g = world.lock();
    Outcome {
        log: g.log.clone(),
        hist: g.hist.clone(),
        convs,
        sim_ns: g.sim_ns,
        threads_spawned: spawned,
    }
}

/// Canonical text of an outcome's event log (for determinism diffs and replay files).
pub fn log_text(o: &Outcome) -> Vec<String> {
    use crate::world::Ev;
    let mut out = Vec::with_capacity(o.log.len());
    for e in &o.log {
        let body = match &e.ev {
            Ev::Admin { op, within } => match within {
                Some((w, k)) => format!("admin {:?} [inside conversion of W{} before seam call #{}]", op, w, k),
                None => format!("admin {:?}", op),
            },
            Ev::Seam { worker, ordinal, kind, detail } => {
                format!("W{} seam#{} {} {}", worker, ordinal, kind.name(), detail)
            }
            Ev::Invoke { worker, conv } => {
                let c = &o.convs[*conv];
                format!("W{} invoke conv{} {:?} t={}", worker, conv, c.api, c.t)
            }
            Ev::Return { worker, conv } => format!("W{} return conv{} {:?}", worker, conv, o.convs[*conv].res),
        };
        out.push(format!("{:>5} t={}.{:09} {}", e.seq, e.clock_ns / 1_000_000_000, e.clock_ns % 1_000_000_000, body));
    }
    out
}

pub fn fnv(h: &mut u64, bytes: &[u8]) {
    for &b in bytes {
        *h ^= b as u64;
        *h = h.wrapping_mul(0x0000_0100_0000_01B3);
    }
}

pub fn log_hash(o: &Outcome) -> u64 {
    let mut h = 0xcbf2_9ce4_8422_2325u64;
    for l in log_text(o) {
        fnv(&mut h, l.as_bytes());
        fnv(&mut h, b"\n");
    }
    h
}
