//! Counting global allocator: per-thread, deterministic record of the largest single request
//! and of the total bytes requested while a probe is armed.

use std::alloc::{GlobalAlloc, Layout, System};
use std::cell::Cell;

pub struct Counting;

thread_local! {
    static ARMED: Cell<bool> = const { Cell::new(false) };
    static MAX_ONE: Cell<usize> = const { Cell::new(0) };
    static TOTAL: Cell<usize> = const { Cell::new(0) };
}

fn note(size: usize) {
    let _ = ARMED.try_with(|a| {
        if a.get() {
            let _ = MAX_ONE.try_with(|m| {
                if size > m.get() {
                    m.set(size)
                }
            });
            let _ = TOTAL.try_with(|t| t.set(t.get().saturating_add(size)));
        }
    });
}

unsafe impl GlobalAlloc for Counting {
    unsafe fn alloc(&self, l: Layout) -> *mut u8 {
        note(l.size());
        System.alloc(l)
    }
    unsafe fn dealloc(&self, p: *mut u8, l: Layout) {
        System.dealloc(p, l)
    }
    unsafe fn alloc_zeroed(&self, l: Layout) -> *mut u8 {
        note(l.size());
        System.alloc_zeroed(l)
    }
    unsafe fn realloc(&self, p: *mut u8, l: Layout, new_size: usize) -> *mut u8 {
        note(new_size);
        System.realloc(p, l, new_size)
    }
}

/// Run `f` with the probe armed; returns (result, largest single request, total requested).
pub fn measure<T>(f: impl FnOnce() -> T) -> (T, usize, usize) {
    MAX_ONE.with(|m| m.set(0));
    TOTAL.with(|t| t.set(0));
    ARMED.with(|a| a.set(true));
    let r = f();
    ARMED.with(|a| a.set(false));
    (r, MAX_ONE.with(|m| m.get()), TOTAL.with(|t| t.get()))
}
