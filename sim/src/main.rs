//! Deterministic simulation with fault injection for chrono's `Local` (properties C05, C16, C18).

mod alloc;
mod c18;
mod check05;
mod check16;
mod check18;
mod gen;
mod model;
mod oracle18;
mod plan;
mod rng;
mod runner;
mod selftest;
mod tzif;
mod worker;
mod world;

use runner::{Opts, DEFAULT_SEED};

#[global_allocator]
static GLOBAL: alloc::Counting = alloc::Counting;

fn usage() -> ! {
    eprintln!(
        "usage: sim check <C05|C16|C18> [--tier quick|thorough] [--seed N] [--threads N] [--scale X] [--config F0..F4]\n       sim replay <file>\n       sim selftest <determinism|stub-fidelity|reach>"
    );
    std::process::exit(2)
}

fn main() {
    worker::install_panic_hook();
    let args: Vec<String> = std::env::args().skip(1).collect();
    if args.is_empty() {
        usage();
    }
    let mut tier = std::env::var("VERIF_TIER").unwrap_or_else(|_| "quick".into());
    let mut seed = std::env::var("VERIF_SEED").ok().and_then(|s| s.parse::<u64>().ok()).unwrap_or(DEFAULT_SEED);
    let mut threads = std::thread::available_parallelism().map(|n| n.get()).unwrap_or(4);
    let mut scale = 1.0f64;
    let mut config: Option<String> = None;
    let mut pos: Vec<String> = Vec::new();
    let mut i = 0;
    while i < args.len() {
        let a = &args[i];
        let mut val = || {
            i += 1;
            args.get(i).cloned().unwrap_or_else(|| usage())
        };
        match a.as_str() {
            "--tier" => tier = val(),
            "--seed" => seed = val().parse().unwrap_or_else(|_| usage()),
            "--threads" => threads = val().parse().unwrap_or_else(|_| usage()),
            "--scale" => scale = val().parse().unwrap_or_else(|_| usage()),
            "--config" => config = Some(val()),
            _ => pos.push(a.clone()),
        }
        i += 1;
    }
    if tier != "quick" && tier != "thorough" {
        usage();
    }
    let opts = Opts { tier, seed, threads, scale };
    let code = match pos.get(0).map(|s| s.as_str()) {
        Some("check") => match pos.get(1).map(|s| s.as_str()) {
            Some("C18") => {
                let only = config.as_deref().map(|c| c18::Config::parse(c).unwrap_or_else(|| usage()));
                println!("C18 tier={} seed={} threads={}", opts.tier, opts.seed, opts.threads);
                check18::run(&opts, only)
            }
            Some("C16") => {
                let only = config.as_deref().map(|c| check16::Part::parse(c).unwrap_or_else(|| usage()));
                println!("C16 tier={} seed={} threads={}", opts.tier, opts.seed, opts.threads);
                check16::run(&opts, only)
            }
            Some("C05") => {
                let only = config.as_deref().map(|c| check05::Class::parse(c).unwrap_or_else(|| usage()));
                println!("C05 tier={} seed={} threads={}", opts.tier, opts.seed, opts.threads);
                check05::run(&opts, only)
            }
            _ => usage(),
        },
        Some("shard") => {
            // sim shard <check> <args..> <from> <to> <out>
            let n = pos.len();
            if n < 6 {
                usage();
            }
            let from: u64 = pos[n - 3].parse().unwrap_or_else(|_| usage());
            let to: u64 = pos[n - 2].parse().unwrap_or_else(|_| usage());
            let out = pos[n - 1].clone();
            // a panic that escapes every guard inside the shard: leave a note for the parent
            // (exit 4) instead of dying with 101
            let out2 = out.clone();
            let r = worker::guarded(move || match pos[1].as_str() {
                "C18" => {
                    let cfg = c18::Config::parse(&pos[2]).unwrap_or_else(|| usage());
                    let seed: u64 = pos[3].parse().unwrap_or_else(|_| usage());
                    check18::shard(cfg, seed, from, to, &out)
                }
                "C16" => {
                    // sim shard C16 <part> <seed> <tier> <from> <to> <out>
                    let part = check16::Part::parse(&pos[2]).unwrap_or_else(|| usage());
                    let seed: u64 = pos[3].parse().unwrap_or_else(|_| usage());
                    check16::shard(part, seed, &pos[4], from, to, &out)
                }
                "C05" => {
                    // sim shard C05 <class> <seed> <tier> <scale> <from> <to> <out>
                    let class = check05::Class::parse(&pos[2]).unwrap_or_else(|| usage());
                    let seed: u64 = pos[3].parse().unwrap_or_else(|_| usage());
                    let scale: f64 = pos[5].parse().unwrap_or_else(|_| usage());
                    check05::shard(class, seed, &pos[4], scale, from, to, &out)
                }
                _ => usage(),
            });
            match r {
                Ok(c) => c,
                Err(p) => {
                    let _ = std::fs::write(format!("{}.crash", out2), &p);
                    4
                }
            }
        }
        Some("loghash") => {
            let cfg = c18::Config::parse(&pos[1]).unwrap_or_else(|| usage());
            selftest::loghash(cfg, pos[2].parse().unwrap_or(0), pos[3].parse().unwrap_or(0), pos[4].parse().unwrap_or(1))
        }
        Some("realtz") => selftest::realtz(&pos[1..]),
        Some("dump-model-cases") => check05::dump_model_cases(opts.seed, pos.get(1).and_then(|s| s.parse().ok()).unwrap_or(200)),
        Some("selftest") => match pos.get(1).map(|s| s.as_str()) {
            Some("determinism") => selftest::determinism(pos.get(2).and_then(|s| s.parse().ok()).unwrap_or(24)),
            Some("stub-fidelity") => selftest::stub_fidelity(),
            Some("reach") => selftest::reach(),
            _ => usage(),
        },
        Some("replay") => {
            let path = pos.get(1).cloned().unwrap_or_else(|| usage());
            let text = std::fs::read_to_string(&path).unwrap_or_else(|e| {
                eprintln!("harness error: cannot read {}: {}", path, e);
                std::process::exit(2)
            });
            let v: serde_json::Value = serde_json::from_str(&text).unwrap_or_else(|e| {
                eprintln!("harness error: {} is not JSON: {}", path, e);
                std::process::exit(2)
            });
            match v["kind"].as_str() {
                Some("c18-plan") => check18::replay(&v),
                Some("c05-case") => check05::replay(&v),
                Some("c16-input") => check16::replay(&v),
                _ => {
                    eprintln!("harness error: unknown replay kind");
                    2
                }
            }
        }
        _ => usage(),
    };
    std::process::exit(code);
}
