//! C05: per-operation reference-model oracle inside simulated, fault-free `Local` histories.
//!
//! Every probe goes through two routes: the accessor (chrono's lookups called directly on the
//! parsed zone) and the public `Local` API on a worker thread living in a simulated world whose
//! TZ names the zone. Expectations come from `model.rs` only.

use std::collections::{BTreeMap, HashSet};
use std::sync::Arc;
use std::time::Instant;

use chrono::__verif::Zone;
use serde::{Deserialize, Serialize};
use serde_json::{json, Value};

use crate::c18::SysZones;
use crate::gen::{self, ZoneGenCfg};
use crate::model::{fmt_civil, ZoneModel};
use crate::oracle18::answer;
use crate::plan::{fnv, hexbytes};
use crate::rng::Rng;
use crate::runner::{report, write_evidence, Evidence, Finding, Opts};
use crate::tzif;
use crate::worker::{Api, Res, Worker, LOCAL_APIS, UTC_APIS};
use crate::world::{Admin, ConvFaults, Fs, Inode, SimWorld, State};

/// Probes stay inside the range in which `DateTime<Local>` can hold instant and wall clock.
const T_MIN: i64 = -6_000_000_000_000;
const T_MAX: i64 = 6_000_000_000_000;

#[derive(Clone, Debug, Serialize, Deserialize)]
pub struct Case {
    pub label: String,
    pub model: ZoneModel,
    #[serde(with = "hexbytes")]
    pub tzif: Arc<Vec<u8>>,
    pub rule: Option<String>,
    pub tight: bool,
}

#[derive(Clone, Copy, Debug, PartialEq, Eq)]
pub enum Class {
    Sys,
    Synth,
    Rule,
    /// rules with a transition at or across a year boundary: instant lookups only
    RuleEdge,
}

impl Class {
    pub fn name(self) -> &'static str {
        match self {
            Class::Sys => "system",
            Class::Synth => "synthetic",
            Class::Rule => "rule",
            Class::RuleEdge => "rule-at-year-boundary",
        }
    }
    pub fn parse(s: &str) -> Option<Class> {
        Some(match s {
            "system" => Class::Sys,
            "synthetic" => Class::Synth,
            "rule" => Class::Rule,
            "rule-at-year-boundary" => Class::RuleEdge,
            _ => return None,
        })
    }
    fn stream(self) -> u64 {
        match self {
            Class::Sys => 500,
            Class::Synth => 501,
            Class::Rule => 502,
            Class::RuleEdge => 503,
        }
    }
}

pub fn make_case(seed: u64, idx: u64, class: Class, sys: &SysZones) -> Option<(Case, Rng)> {
    let mut rng = Rng::new(crate::rng::derive(seed, class.stream(), idx));
    let case = match class {
        Class::Sys => {
            let (label, bytes, model) = sys.zones.get(idx as usize)?;
            let model = model.clone()?;
            if !model.leaps.is_empty() {
                return None;
            }
            Case { label: label.clone(), model, tzif: bytes.clone(), rule: None, tight: false }
        }
        Class::Synth => {
            // (extreme_times: now and then the first or last transition lies at the far ends of the
            // 64-bit range; the probes stay in the representable range, where such a zone must
            // still answer from its table)
            let cfg = ZoneGenCfg { limit: 86_399, leaps: false, extreme_times: true, max_trans: 300 };
            let g = gen::gen_zone(&mut rng, &cfg);
            let (bytes, _) = tzif::write(&g.model, &g.opts);
            Case {
                label: format!("synthetic#{}", idx),
                model: g.model,
                tzif: Arc::new(bytes),
                rule: None,
                tight: g.tight,
            }
        }
        Class::RuleEdge => {
            // as a v3 footer half of the time (extended times), else as a TZ string; only the
            // instant lookups are judged (`tight`)
            let ext = rng.chance(1, 2);
            let rule = gen::gen_edge_rule(&mut rng, ext, 86_399);
            let s = tzif::rule_string(&rule, &mut rng);
            if ext {
                let m = ZoneModel::from_rule(rule);
                let o = tzif::TzifOpts { version: 3, fat_v1: false, isstd: vec![], isut: vec![], share_suffix: false, footer: s };
                let mfile = ZoneModel { rule: None, ..m.clone() };
                let bytes = tzif::write(&mfile, &o).0;
                Case { label: format!("rule-at-year-boundary#{}", idx), model: ZoneModel { trans: vec![], leaps: vec![], ..m }, tzif: Arc::new(bytes), rule: None, tight: true }
            } else {
                Case { label: format!("rule-at-year-boundary#{}", idx), model: ZoneModel::from_rule(rule), tzif: Arc::new(Vec::new()), rule: Some(s), tight: true }
            }
        }
        Class::Rule => {
            let rule = gen::gen_rule(&mut rng, true, false, 86_399);
            let s = tzif::rule_string(&rule, &mut rng);
            Case {
                label: format!("rule#{}", idx),
                model: ZoneModel::from_rule(rule),
                tzif: Arc::new(Vec::new()),
                rule: Some(s),
                tight: false,
            }
        }
    };
    Some((case, rng))
}

pub struct Probes {
    pub instants: Vec<i64>,
    pub walls: Vec<i64>,
    pub near: usize,
}

pub fn make_probes(m: &ZoneModel, rng: &mut Rng, max_points: usize, sparse: usize) -> Probes {
    let last_year = m.trans.last().map(|t| crate::model::year_of(t.0.clamp(T_MIN, T_MAX))).unwrap_or(2000);
    let mut years: Vec<i64> = vec![last_year, last_year + 1, last_year + 2, last_year + 3, 2037, 2038, 1900, 2400];
    for _ in 0..4 {
        years.push(rng.range(-20_000, 20_000));
    }
    years.push(rng.range(1, 9999));
    years.sort();
    years.dedup();
    let mut pts = m.transition_points(&years);
    pts.retain(|p| p.0 > T_MIN && p.0 < T_MAX);
    if pts.len() > max_points {
        // keep a random subset, always including first and last table transitions
        let mut keep = Vec::new();
        keep.push(pts[0]);
        keep.push(pts[pts.len() - 1]);
        while keep.len() < max_points {
            keep.push(pts[rng.usize(pts.len())]);
        }
        pts = keep;
    }
    let mut instants = Vec::new();
    let mut walls = Vec::new();
    for &(t, a, b) in &pts {
        for d in -2..=2 {
            instants.push(t + d);
            walls.push(t + a as i64 + d);
            walls.push(t + b as i64 + d);
        }
        // a little further away too
        let far = *rng.pick(&[3600i64, 86_400, 7 * 86_400, 30 * 86_400]);
        instants.push(t + far);
        instants.push(t - far);
        walls.push(t + far);
        walls.push(t - far);
    }
    // year boundaries (rule code selects among previous / current / next year)
    if m.rule.is_some() {
        for &y in years.iter().filter(|y| **y > -190_000 && **y < 190_000) {
            let jan1 = crate::model::days_from_civil(y, 1, 1) * 86_400;
            let last_t = m.trans.last().map(|t| t.0).unwrap_or(i64::MIN);
            if jan1 - 90_000 <= last_t {
                continue;
            }
            for d in [-86_401i64, -43_200, -3_601, -1, 0, 1, 3_600, 43_200, 86_400] {
                instants.push(jan1 + d);
                walls.push(jan1 + d);
            }
        }
    }
    let near = instants.len() + walls.len();
    for _ in 0..sparse {
        let t = match rng.below(4) {
            0 => rng.range(T_MIN, T_MAX),
            1 => rng.range(-5_000_000_000, 8_000_000_000),
            _ => rng.range(-2_208_988_800, 4_102_444_800),
        };
        instants.push(t);
        walls.push(t + rng.range(-100, 100));
    }
    instants.retain(|&t| t > T_MIN && t < T_MAX);
    walls.retain(|&t| t > T_MIN && t < T_MAX);
    Probes { instants, walls, near }
}

#[derive(Clone, Debug)]
pub struct Mismatch {
    pub class: String,
    pub detail: String,
    pub t: i64,
    pub wall: bool,
}

#[derive(Default, Serialize, Deserialize, Clone)]
pub struct Tally {
    pub instant_checks: u64,
    pub wall_checks: u64,
    pub roundtrip_checks: u64,
    pub wall_none: u64,
    pub wall_single: u64,
    pub wall_ambiguous: u64,
    pub exempt_seconds: u64,
    pub skipped_three_candidates: u64,
    pub skipped_tight_zone: u64,
}

fn fmt_off(o: i32) -> String {
    let a = o.abs();
    format!("{}{:02}:{:02}:{:02}", if o < 0 { '-' } else { '+' }, a / 3600, a / 60 % 60, a % 60)
}

/// Judge the answers of one route.
pub fn judge(
    case: &Case,
    route: &str,
    p: &Probes,
    inst: &[Res],
    wall: &[Res],
    rt: &[Res],
    tally: &mut Tally,
) -> Vec<Mismatch> {
    let m = &case.model;
    let offs = m.offsets();
    let mut out = Vec::new();
    let mut bad = |class: &str, t: i64, is_wall: bool, detail: String| {
        out.push(Mismatch { class: format!("{}:{}", route, class), detail, t, wall: is_wall });
    };
    // instant -> offset
    for (k, &u) in p.instants.iter().enumerate() {
        let want = m.at(u).utoff;
        tally.instant_checks += 1;
        match &inst[k] {
            Res::Single(o) if *o == want => {}
            other => bad(
                "instant-offset",
                u,
                false,
                format!("instant {} ({} UTC): zone data prescribes {}, got {:?}", u, fmt_civil(u), fmt_off(want), other),
            ),
        }
        // round trip: the wall clock the implementation reported, mapped back
        if case.tight || rt.is_empty() {
            continue;
        }
        if let Res::Single(o) = &inst[k] {
            let w = u + *o as i64;
            tally.roundtrip_checks += 1;
            match &rt[k] {
                Res::Single(x) if w - *x as i64 == u => {}
                Res::Ambiguous(a, b) => {
                    let (ua, ub) = (w - *a as i64, w - *b as i64);
                    if a == b {
                        bad("ambiguous-identical", w, true, format!("wall {} ({}): Ambiguous({}, {}) - two identical candidates", w, fmt_civil(w), fmt_off(*a), fmt_off(*b)));
                    } else if ua != u && ub != u {
                        bad("roundtrip-lost", w, true, format!("instant {} -> wall {} -> {:?}: instant not among the candidates", u, fmt_civil(w), rt[k]));
                    } else if ua > ub {
                        bad("fold-order", w, true, format!("wall {} ({}): Ambiguous({}, {}) lists the later instant first", w, fmt_civil(w), fmt_off(*a), fmt_off(*b)));
                    }
                }
                other => bad("roundtrip-lost", w, true, format!("instant {} -> wall {} ({}) -> {:?}: does not return the instant", u, w, fmt_civil(w), other)),
            }
        }
    }
    // wall clock -> instants
    if case.tight {
        tally.skipped_tight_zone += p.walls.len() as u64;
        return out;
    }
    for (k, &w) in p.walls.iter().enumerate() {
        let got = &wall[k];
        if let Some((a, b)) = m.exempt_at(w) {
            // the single boundary second of an offset-changing transition: only the offsets
            // of that transition may appear
            tally.exempt_seconds += 1;
            let ok = |o: &i32| *o == a || *o == b;
            let fine = match got {
                Res::Single(x) => ok(x),
                Res::Ambiguous(x, y) => ok(x) && ok(y),
                Res::None => true,
                _ => false,
            };
            if !fine {
                bad("boundary-second-foreign-offset", w, true, format!("wall {} ({}) is the boundary second of a transition {} -> {}, got {:?}", w, fmt_civil(w), fmt_off(a), fmt_off(b), got));
            }
            continue;
        }
        let pre = m.preimage(w, &offs);
        tally.wall_checks += 1;
        match pre.len() {
            0 => {
                tally.wall_none += 1;
                if *got != Res::None {
                    bad("gap-not-none", w, true, format!("wall {} ({}) never occurs (skipped), got {:?}", w, fmt_civil(w), got));
                }
            }
            1 => {
                tally.wall_single += 1;
                let o = pre[0].1;
                match got {
                    Res::Single(x) if *x == o => {}
                    Res::Ambiguous(x, y) if x == y && *x == o => {
                        bad("ambiguous-identical", w, true, format!("wall {} ({}) occurs exactly once (offset {}), got Ambiguous({}, {})", w, fmt_civil(w), fmt_off(o), fmt_off(*x), fmt_off(*y)))
                    }
                    _ => bad("once-not-single", w, true, format!("wall {} ({}) occurs exactly once (offset {}), got {:?}", w, fmt_civil(w), fmt_off(o), got)),
                }
            }
            2 => {
                tally.wall_ambiguous += 1;
                let (e, l) = (pre[0].1, pre[1].1);
                match got {
                    Res::Ambiguous(x, y) if *x == e && *y == l => {}
                    Res::Ambiguous(x, y) if *x == l && *y == e => {
                        bad("fold-order", w, true, format!("wall {} ({}) occurs twice: expected Ambiguous({}, {}) earliest first, got Ambiguous({}, {})", w, fmt_civil(w), fmt_off(e), fmt_off(l), fmt_off(*x), fmt_off(*y)))
                    }
                    _ => bad("twice-not-both", w, true, format!("wall {} ({}) occurs twice (offsets {} then {}), got {:?}", w, fmt_civil(w), fmt_off(e), fmt_off(l), got)),
                }
            }
            _ => tally.skipped_three_candidates += 1,
        }
    }
    out
}

/// Accessor route: chrono's lookups on the zone its reader built.
pub fn route_accessor(z: &Zone, p: &Probes) -> (Vec<Res>, Vec<Res>, Vec<Res>) {
    let inst: Vec<Res> = p.instants.iter().map(|&u| answer(z, Api::FromUtc, u)).collect();
    let wall: Vec<Res> = p.walls.iter().map(|&w| answer(z, Api::FromLocal, w)).collect();
    let rt: Vec<Res> = p
        .instants
        .iter()
        .zip(&inst)
        .map(|(&u, r)| match r {
            Res::Single(o) => answer(z, Api::FromLocal, u + *o as i64),
            _ => Res::None,
        })
        .collect();
    (inst, wall, rt)
}

/// Public route: a worker thread in a simulated world whose TZ names the zone. The zone is
/// reached after a history of other zones (cache reloads through the real file path).
pub fn route_public(case: &Case, p: &Probes, rng: &mut Rng, decoys: &[Arc<Vec<u8>>]) -> Result<(Vec<Res>, Vec<Res>, Vec<Res>), String> {
    let mut fs = Fs::new();
    let mut pool = vec![case.tzif.clone()];
    for d in decoys {
        pool.push(d.clone());
    }
    let tz_value = match &case.rule {
        Some(s) => s.clone(),
        None => {
            let shape = rng.below(4);
            let (path, tz) = match shape {
                0 => ("/sim/zone".to_string(), ":/sim/zone".to_string()),
                1 => ("/sim/zone".to_string(), "/sim/zone".to_string()),
                2 => ("/usr/share/zoneinfo/Sim/Zone".to_string(), "Sim/Zone".to_string()),
                _ => ("/etc/zoneinfo/Sim/Zone".to_string(), ":Sim/Zone".to_string()),
            };
            fs.insert(path, Inode { bytes: case.tzif.clone(), mtime_ns: 1, zone: 0 });
            tz
        }
    };
    for (k, d) in decoys.iter().enumerate() {
        fs.insert(format!("/sim/decoy{}", k), Inode { bytes: d.clone(), mtime_ns: 1, zone: k + 1 });
    }
    let clock0 = 1_700_000_000_000_000_000 + rng.below(1_000_000_000);
    // history: zero or more decoy zones first, each used, then a switch to the zone under test
    let n_before = if decoys.is_empty() { 0 } else { rng.usize(decoys.len() + 1) };
    let st = State {
        clock_ns: clock0,
        tz: if n_before == 0 { Some(tz_value.clone()) } else { Some("/sim/decoy0".to_string()) },
        fs,
        sysname: None,
    };
    let world = SimWorld::new(st, pool, crate::plan::SEAM_CAP);
    let mut w = Worker::spawn(&world);
    let none = ConvFaults::default();
    for k in 0..n_before {
        if k > 0 {
            world.lock().apply(&Admin::SetTz(format!("/sim/decoy{}", k)), None);
            world.lock().apply(&Admin::Wait(1_000_000_000 + rng.below(5_000_000_000)), None);
        }
        world.begin_conv(0, k, &[], &none);
        let r = w.convert(Api::FromUtc, 0);
        world.end_conv();
        r?;
    }
    if n_before > 0 {
        world.lock().apply(&Admin::SetTz(tz_value), None);
        world.lock().apply(&Admin::Wait(1_000_000_000 + rng.below(3_000_000_000)), None);
    }
    world.begin_conv(0, 100, &[], &none);
    let inst_req: Vec<(Api, i64)> = p.instants.iter().enumerate().map(|(k, &u)| (UTC_APIS[k % UTC_APIS.len()], u)).collect();
    let inst = w.batch(inst_req)?;
    let wall_req: Vec<(Api, i64)> = p.walls.iter().enumerate().map(|(k, &t)| (LOCAL_APIS[k % LOCAL_APIS.len()], t)).collect();
    let wall = w.batch(wall_req)?;
    let rt_req: Vec<(Api, i64)> = p
        .instants
        .iter()
        .zip(&inst)
        .enumerate()
        .map(|(k, (&u, r))| match r {
            Res::Single(o) => (LOCAL_APIS[(k + 1) % LOCAL_APIS.len()], u + *o as i64),
            _ => (Api::FromLocal, u),
        })
        .collect();
    let rt = w.batch(rt_req)?;
    // the same value asked in both directions back to back (instant then wall clock, wall clock
    // then instant): answers must not depend on what was asked just before
    let mut mixed_req: Vec<(Api, i64)> = Vec::new();
    let n = p.instants.len().min(p.walls.len()).min(48);
    for k in 0..n {
        let t = if k % 2 == 0 { p.instants[k] } else { p.walls[k] };
        if k % 4 < 2 {
            mixed_req.push((UTC_APIS[k % UTC_APIS.len()], t));
            mixed_req.push((LOCAL_APIS[k % LOCAL_APIS.len()], t));
        } else {
            mixed_req.push((LOCAL_APIS[k % LOCAL_APIS.len()], t));
            mixed_req.push((UTC_APIS[k % UTC_APIS.len()], t));
        }
    }
    let mixed = w.batch(mixed_req.clone())?;
    world.end_conv();
    MIXED.with(|m| *m.borrow_mut() = mixed_req.into_iter().zip(mixed).collect());
    Ok((inst, wall, rt))
}

thread_local! {
    /// requests and answers of the last mixed-direction batch of `route_public`
    static MIXED: std::cell::RefCell<Vec<((Api, i64), Res)>> = const { std::cell::RefCell::new(Vec::new()) };
}

/// Judge the mixed-direction batch recorded by the last `route_public` call.
fn judge_mixed(case: &Case, tally: &mut Tally) -> Vec<Mismatch> {
    let items = MIXED.with(|m| std::mem::take(&mut *m.borrow_mut()));
    let mut out = Vec::new();
    for ((api, t), res) in items {
        let p = if api.is_local() {
            Probes { instants: vec![], walls: vec![t], near: 0 }
        } else {
            Probes { instants: vec![t], walls: vec![], near: 0 }
        };
        let (i, w): (Vec<Res>, Vec<Res>) = if api.is_local() { (vec![], vec![res]) } else { (vec![res], vec![]) };
        out.extend(judge(case, "Local-mixed-directions", &p, &i, &w, &[], tally));
    }
    out
}

#[derive(Serialize, Deserialize, Default)]
pub struct Shard05 {
    zones: u64,
    zones_skipped: u64,
    zones_rejected_by_reader: u64,
    probes: u64,
    near_transition_probes: u64,
    tally: Tally,
    n_mismatches: u64,
    /// (case index, class, detail, t, wall)
    mismatches: Vec<(u64, String, String, i64, bool)>,
    samples: Vec<Value>,
    by_class: BTreeMap<String, u64>,
    transitions_covered: u64,
}

fn add_tally(a: &mut Tally, b: &Tally) {
    a.instant_checks += b.instant_checks;
    a.wall_checks += b.wall_checks;
    a.roundtrip_checks += b.roundtrip_checks;
    a.wall_none += b.wall_none;
    a.wall_single += b.wall_single;
    a.wall_ambiguous += b.wall_ambiguous;
    a.exempt_seconds += b.exempt_seconds;
    a.skipped_three_candidates += b.skipped_three_candidates;
    a.skipped_tight_zone += b.skipped_tight_zone;
}

pub struct CaseResult {
    pub mismatches: Vec<Mismatch>,
    pub tally: Tally,
    pub probes: u64,
    pub near: u64,
    pub rejected: bool,
    pub points: u64,
}

pub fn parse_case(case: &Case) -> Result<Zone, String> {
    match &case.rule {
        Some(s) => Zone::from_posix_rule(s.as_bytes(), false),
        None => Zone::from_tzif(&case.tzif),
    }
}

pub fn run_case(case: &Case, rng: &mut Rng, max_points: usize, sparse: usize, decoys: &[Arc<Vec<u8>>]) -> Result<CaseResult, String> {
    let p = make_probes(&case.model, rng, max_points, sparse);
    let mut tally = Tally::default();
    let z = match crate::worker::guarded(|| parse_case(case)) {
        Ok(Ok(z)) => z,
        _ => {
            return Ok(CaseResult { mismatches: vec![], tally, probes: 0, near: 0, rejected: true, points: 0 });
        }
    };
    let (i1, w1, r1) = route_accessor(&z, &p);
    let mut mm = judge(case, "accessor", &p, &i1, &w1, &r1, &mut tally);
    let (i2, w2, r2) = route_public(case, &p, rng, decoys)?;
    let mut t2 = Tally::default();
    mm.extend(judge(case, "Local", &p, &i2, &w2, &r2, &mut t2));
    mm.extend(judge_mixed(case, &mut t2));
    add_tally(&mut tally, &t2);
    Ok(CaseResult {
        mismatches: mm,
        tally,
        probes: 2 * (2 * p.instants.len() + p.walls.len()) as u64,
        near: 2 * p.near as u64,
        rejected: false,
        points: (case.model.trans.len()) as u64,
    })
}

fn budgets(tier: &str, scale: f64, nsys: usize) -> Vec<(Class, u64, usize, usize)> {
    // (class, cases, max transition points probed per zone, sparse probes)
    let s = |n: u64| ((n as f64 * scale) as u64).max(1);
    if tier == "thorough" {
        vec![(Class::Sys, nsys as u64, 100_000, 2_000), (Class::Synth, s(1_200_000), 400, 200), (Class::Rule, s(1_200_000), 400, 200), (Class::RuleEdge, s(300_000), 400, 200)]
    } else {
        vec![(Class::Sys, nsys as u64, 60, 100), (Class::Synth, s(6_000), 80, 60), (Class::Rule, s(6_000), 80, 60), (Class::RuleEdge, s(3_000), 80, 60)]
    }
}

fn decoys(rng: &mut Rng) -> Vec<Arc<Vec<u8>>> {
    (0..rng.usize(3)).map(|_| Arc::new(tzif::fixed_file(gen::gen_utoff(rng, 50_000), "DCY", 2))).collect()
}

pub fn shard(class: Class, seed: u64, tier: &str, scale: f64, from: u64, to: u64, out: &str) -> i32 {
    let sys = SysZones::load();
    let (_, _, maxp, sparse) = *budgets(tier, scale, sys.zones.len()).iter().find(|b| b.0 == class).unwrap();
    let mut sh = Shard05::default();
    let mut distinct: HashSet<u64> = HashSet::new();
    let hb = crate::runner::Heartbeat::start(out, std::time::Duration::from_secs(60));
    for i in from..to {
        hb.beat(&format!("case {} of class {}", i, class.name()), &i.to_le_bytes());
        let (case, mut rng) = match make_case(seed, i, class, &sys) {
            Some(c) => c,
            None => {
                sh.zones_skipped += 1;
                continue;
            }
        };
        let d = decoys(&mut rng);
        let r = match run_case(&case, &mut rng, maxp, sparse, &d) {
            Ok(r) => r,
            Err(e) => {
                sh.n_mismatches += 1;
                sh.mismatches.push((i, "harness".into(), e, 0, false));
                continue;
            }
        };
        if r.rejected {
            // every zone generated or loaded here is well-formed, so a rejection means Local cannot
            // follow the zone data at all (it would silently fall back to another zone)
            sh.zones_rejected_by_reader += 1;
            sh.n_mismatches += 1;
            let why = match crate::worker::guarded(|| parse_case(&case)) {
                Ok(Err(e)) => e,
                Ok(Ok(_)) => "accepted on a second attempt".to_string(),
                Err(p) => format!("reader panicked: {}", p),
            };
            *sh.by_class.entry("zone-rejected".into()).or_insert(0) += 1;
            if sh.mismatches.iter().filter(|x| x.1 == "zone-rejected").count() < 4 {
                sh.mismatches.push((i, "zone-rejected".into(), format!("the reader rejects this well-formed zone ({}): Local falls back to another zone instead of following the zone data", why), 0, false));
            }
            continue;
        }
        sh.zones += 1;
        sh.probes += r.probes;
        sh.near_transition_probes += r.near;
        sh.transitions_covered += r.points;
        add_tally(&mut sh.tally, &r.tally);
        // distinct non-trivial cases: zone x transition-adjacent probe set
        let mut h = 0xcbf2_9ce4_8422_2325u64;
        fnv(&mut h, case.label.as_bytes());
        fnv(&mut h, &case.tzif);
        fnv(&mut h, case.rule.clone().unwrap_or_default().as_bytes());
        if r.near > 0 {
            distinct.insert(h);
        }
        if sh.samples.len() < 2 {
            sh.samples.push(json!({
                "zone": case.label,
                "class": class.name(),
                "tz_rule": case.rule,
                "tzif_bytes": case.tzif.len(),
                "transitions": case.model.trans.len(),
                "types": case.model.types.iter().map(|t| format!("{}{}{}", fmt_off(t.utoff), if t.dst { " dst " } else { " " }, t.abbr)).collect::<Vec<_>>(),
                "footer_rule": case.model.rule.as_ref().map(crate::model::dbg_rule),
                "probes": r.probes,
            }));
        }
        for m in r.mismatches {
            sh.n_mismatches += 1;
            *sh.by_class.entry(m.class.clone()).or_insert(0) += 1;
            if sh.mismatches.iter().filter(|x| x.1 == m.class).count() < 4 {
                sh.mismatches.push((i, m.class, m.detail, m.t, m.wall));
            }
        }
    }
    std::fs::write(format!("{}.json", out), serde_json::to_string(&sh).unwrap()).expect("write shard");
    crate::runner::write_hashes(std::path::Path::new(&format!("{}.ilv", out)), &distinct);
    0
}

/// Shrink a failing synthetic case: drop table transitions while the same class still fails at
/// the same probe.
fn minimise_case(case: &Case, class: &str, t: i64, wall: bool) -> Case {
    if case.rule.is_some() || case.label.starts_with("synthetic") == false {
        return case.clone();
    }
    let fails = |c: &Case| -> bool {
        let z = match crate::worker::guarded(|| parse_case(c)) {
            Ok(Ok(z)) => z,
            _ => return false,
        };
        let p = Probes { instants: if wall { vec![] } else { vec![t] }, walls: if wall { vec![t] } else { vec![] }, near: 0 };
        // round-trip classes come from instants; probe both ways around t
        let p = if wall { Probes { instants: case_instants_for_wall(c, t), ..p } } else { p };
        let (i, w, r) = route_accessor(&z, &p);
        let mut tl = Tally::default();
        judge(c, "accessor", &p, &i, &w, &r, &mut tl).iter().any(|m| m.class.ends_with(class.split(':').last().unwrap_or("")))
    };
    let mut best = case.clone();
    if !fails(&best) {
        return best;
    }
    let mut k = 0;
    while k < best.model.trans.len() {
        let mut cand = best.clone();
        cand.model.trans.remove(k);
        // rewrite the file from the reduced model (slim v2/v3 keeps it simple)
        let o = tzif::TzifOpts {
            version: if cand.model.rule.is_some() { 3 } else { 2 },
            fat_v1: false,
            isstd: vec![],
            isut: vec![],
            share_suffix: false,
            footer: match &cand.model.rule {
                Some(r) => tzif::rule_string(r, &mut Rng::new(1)),
                None => String::new(),
            },
        };
        cand.tzif = Arc::new(tzif::write(&cand.model, &o).0);
        if fails(&cand) {
            best = cand;
        } else {
            k += 1;
        }
    }
    best
}

fn case_instants_for_wall(c: &Case, w: i64) -> Vec<i64> {
    c.model.offsets().iter().map(|&o| w - o as i64).collect()
}

pub fn run(opts: &Opts, only: Option<Class>) -> i32 {
    let start = Instant::now();
    let sys = SysZones::load();
    let mut findings: Vec<Finding> = Vec::new();
    let mut tally = Tally::default();
    let mut per_class = Vec::new();
    let mut distinct: HashSet<u64> = HashSet::new();
    let mut samples: Vec<Value> = Vec::new();
    let (mut zones, mut skipped, mut rejected, mut probes, mut near, mut trans) = (0u64, 0u64, 0u64, 0u64, 0u64, 0u64);
    let mut seen: Vec<String> = Vec::new();
    let mut by_class: BTreeMap<String, u64> = BTreeMap::new();
    for (class, n, _, _) in budgets(&opts.tier, opts.scale, sys.zones.len()) {
        if let Some(o) = only {
            if o != class {
                continue;
            }
        }
        if n == 0 {
            continue;
        }
        let t0 = Instant::now();
        let (dir, procs) = crate::runner::spawn_shards(
            &["C05".to_string(), class.name().to_string(), opts.seed.to_string(), opts.tier.clone(), opts.scale.to_string()],
            n,
            opts.threads,
        );
        let mut c_zones = 0;
        let mut c_mm = 0;
        for k in 0..procs {
            if let Ok(h) = std::fs::read_to_string(dir.join(format!("{}.hang", k))) {
                let v: Value = serde_json::from_str(&h).unwrap_or(Value::Null);
                let what = v["what"].as_str().unwrap_or("?").to_string();
                let idx = crate::plan::hexbytes::unhex(v["hex"].as_str().unwrap_or("")).map(|b| {
                    let mut a = [0u8; 8];
                    a.copy_from_slice(&b[..8]);
                    u64::from_le_bytes(a)
                }).unwrap_or(0);
                if !seen.contains(&"hang".to_string()) {
                    seen.push("hang".into());
                    let case = make_case(opts.seed, idx, class, &sys).map(|c| c.0);
                    findings.push(Finding {
                        property: "C05".into(),
                        signature: format!("C05/{}/hang", class.name()),
                        detail: format!("no progress for 60 s in {}", what),
                        replay: json!({"kind": "c05-case", "class": "hang", "t": 0, "wall": false, "case": case}),
                    });
                }
                continue;
            }
            let text = std::fs::read_to_string(dir.join(format!("{}.json", k))).expect("read shard");
            let r: Shard05 = serde_json::from_str(&text).expect("parse shard");
            crate::runner::read_hashes(&dir.join(format!("{}.ilv", k)), &mut distinct);
            zones += r.zones;
            c_zones += r.zones;
            skipped += r.zones_skipped;
            rejected += r.zones_rejected_by_reader;
            probes += r.probes;
            near += r.near_transition_probes;
            trans += r.transitions_covered;
            add_tally(&mut tally, &r.tally);
            c_mm += r.n_mismatches;
            for (k, v) in r.by_class {
                *by_class.entry(k).or_insert(0) += v;
            }
            for s in r.samples {
                if samples.iter().filter(|x: &&Value| x["class"] == s["class"]).count() < 2 {
                    samples.push(s);
                }
            }
            for (i, mclass, detail, t, wall) in r.mismatches {
                if mclass == "harness" {
                    eprintln!("harness error in case {} of {}: {}", i, class.name(), detail);
                    return 2;
                }
                let key = format!("{}/{}", class.name(), mclass);
                if seen.contains(&key) {
                    continue;
                }
                seen.push(key);
                let (case, _) = make_case(opts.seed, i, class, &sys).expect("case");
                let min = minimise_case(&case, &mclass, t, wall);
                findings.push(Finding {
                    property: "C05".into(),
                    signature: format!("C05/{}/{}", class.name(), mclass),
                    detail: format!("zone {}: {}", case.label, detail),
                    replay: json!({"kind": "c05-case", "class": mclass, "t": t, "wall": wall, "case": min, "original_transitions": case.model.trans.len()}),
                });
            }
        }
        let _ = std::fs::remove_dir_all(&dir);
        per_class.push(json!({"class": class.name(), "cases": n, "zones_checked": c_zones, "mismatches": c_mm, "wall_s": t0.elapsed().as_secs_f64()}));
    }
    let (code, new) = report("C05", &findings);
    let wall = start.elapsed().as_secs_f64();
    let cov = json!({
        "evaluations": zones,
        "distinct_nontrivial": distinct.len(),
        "rule": "one evaluation = one zone (a system zoneinfo file without leap seconds, a synthetic TZif file written from a random zone model, a random in-class POSIX rule, or - judged on instant lookups only - a rule with a transition at or across a year boundary) put behind Local in a simulated world after a history of 0-2 other zones, and probed through the accessor and through the public API: instants T-2..T+2 and wall clocks T+o-2..T+o+2 around every (sampled) table and rule transition, plus sparse random ones; each instant is also mapped to its wall clock and back. distinct = distinct zone content; non-trivial = the zone has at least one transition-adjacent probe.",
        "samples": samples,
        "per_class": per_class,
        "probes": probes,
        "transition_adjacent_probes": near,
        "table_transitions_in_zones": trans,
        "checks": tally,
        "zones_skipped_leap_seconds_or_unreadable_by_reference_reader": skipped,
        "well_formed_zones_rejected_by_the_reader": rejected,
        "mismatches_by_class": by_class,
        "zones_per_hour": (zones as f64 / wall * 3600.0) as u64,
        "real_components": ["tz_info reader and both lookups (accessor route)", "Local, TimeZone trait glue, unix.rs cache and zone selection, std read_to_end (public route)", "OS thread per zone history"],
        "stubbed_components": ["TZ, clock, file system (simulated world)"],
        "fault_kinds_injected": {},
        "fault_configuration": "fault-free by design (C05 has no fault or schedule dimension); the simulated world supplies the zone and the cache-reload history: 0-2 decoy zones, each followed by SetTZ and a wait of 1-6 simulated seconds",
        "reference_model": "model.rs: days-from-civil with floor division, rule transitions enumerated for y-1..y+1, wall-clock answer = pre-image of the instant lookup over the zone's distinct offsets",
    });
    write_evidence(
        opts,
        start,
        Evidence {
            property: "C05".into(),
            level: "exploration".into(),
            coverage: cov,
            assumptions: vec![
                "fault-free configuration only: no schedule or fault is claimed to matter for C05; the simulator supplies the configuration axis (any zone behind the public Local API, reached through cache reloads)".into(),
                "synthetic zones keep neighbouring transitions at least three days apart (except 'tight' zones, judged on instant lookups only); rules are restricted to the class the quantifier names plus seasons of at least 14 days".into(),
                "wall-clock times with three or more candidate instants are skipped and counted".into(),
            ],
            violations: new,
        },
    );
    code
}

pub fn replay(v: &Value) -> i32 {
    let case: Case = match serde_json::from_value(v["case"].clone()) {
        Ok(c) => c,
        Err(e) => {
            eprintln!("harness error: bad case in replay file: {}", e);
            return 2;
        }
    };
    let t = v["t"].as_i64().unwrap_or(0);
    let wall = v["wall"].as_bool().unwrap_or(false);
    let class = v["class"].as_str().unwrap_or("").to_string();
    let p = if wall {
        Probes { instants: case_instants_for_wall(&case, t), walls: vec![t], near: 0 }
    } else {
        Probes { instants: vec![t], walls: vec![], near: 0 }
    };
    let z = match crate::worker::guarded(|| parse_case(&case)) {
        Ok(Ok(z)) => z,
        Ok(Err(e)) => {
            println!("zone {}: the reader rejects it: {}", case.label, e);
            if class == "zone-rejected" {
                println!("zone-rejected :: a well-formed zone is rejected, Local cannot follow it");
                println!("VIOLATION property=C05 replay=<this file>");
                return 1;
            }
            return 0;
        }
        Err(p) => {
            println!("the reader panicked on this zone: {}", p);
            println!("VIOLATION property=C05 replay=<this file>");
            return 1;
        }
    };
    let mut tl = Tally::default();
    let (i1, w1, r1) = route_accessor(&z, &p);
    let mut mm = judge(&case, "accessor", &p, &i1, &w1, &r1, &mut tl);
    let mut rng = Rng::new(7);
    match route_public(&case, &p, &mut rng, &[]) {
        Ok((i2, w2, r2)) => mm.extend(judge(&case, "Local", &p, &i2, &w2, &r2, &mut tl)),
        Err(e) => println!("public route failed: {}", e),
    }
    println!("zone {}: model {}", case.label, case.model.debug());
    for m in &mm {
        println!("{} :: {}", m.class, m.detail);
    }
    if mm.iter().any(|m| m.class == class) {
        println!("VIOLATION property=C05 replay=<this file>");
        1
    } else {
        println!("not reproduced");
        0
    }
}

/// Dump reference-model cases as JSON lines for cross-checking the model against an
/// independent implementation (CPython's `zoneinfo`, see tools_model_vs_zoneinfo.py):
/// per zone its TZif bytes, instants with the offset the model prescribes, and wall clocks with
/// the offsets of their pre-image (earliest first).
pub fn dump_model_cases(seed: u64, n: u64) -> i32 {
    let sys = SysZones::load();
    let lo = -2_208_988_800i64; // 1900
    let hi = 7_258_118_400i64; // 2200
    for (class, count) in [(Class::Sys, sys.zones.len() as u64), (Class::Synth, n), (Class::Rule, n)] {
        for i in 0..count {
            let (case, mut rng) = match make_case(seed, i, class, &sys) {
                Some(c) => c,
                None => continue,
            };
            if case.tight {
                continue;
            }
            // a rule zone is dumped as a v3 file with only a footer
            let bytes: Vec<u8> = match &case.rule {
                Some(r) => {
                    let m = ZoneModel { types: case.model.types.clone(), trans: vec![], leaps: vec![], rule: None };
                    let o = tzif::TzifOpts { version: 3, fat_v1: false, isstd: vec![], isut: vec![], share_suffix: false, footer: r.clone() };
                    tzif::write(&m, &o).0
                }
                None => case.tzif.to_vec(),
            };
            let p = make_probes(&case.model, &mut rng, 40, 40);
            let offs = case.model.offsets();
            let inst: Vec<(i64, i32)> = p.instants.iter().filter(|&&u| u > lo && u < hi).map(|&u| (u, case.model.at(u).utoff)).collect();
            let walls: Vec<(i64, Vec<i32>)> = p
                .walls
                .iter()
                .filter(|&&w| w > lo && w < hi)
                .map(|&w| (w, case.model.preimage(w, &offs).iter().map(|x| x.1).collect()))
                .collect();
            // CPython uses the first *standard* type before the first transition (a tzcode
            // heuristic), RFC 8536 and the statement of C05 say type 0: tell the script when the two
            // coincide
            let type0_ok = case.model.types.first().map_or(true, |t0| {
                !t0.dst || case.model.types.iter().all(|t| t.dst)
            });
            println!("{}", json!({"label": case.label, "hex": crate::plan::hexbytes::hex(&bytes), "instants": inst, "walls": walls,
                "first_transition": case.model.trans.first().map(|t| t.0), "has_rule": case.model.rule.is_some(), "type0_is_first_standard_type": type0_ok}));
        }
    }
    0
}
