//! Private PRNG: splitmix64 seeding a xoshiro256**. No crate, no global state.

#[derive(Clone, Debug)]
pub struct Rng {
    s: [u64; 4],
}

pub fn splitmix(x: &mut u64) -> u64 {
    *x = x.wrapping_add(0x9E37_79B9_7F4A_7C15);
    let mut z = *x;
    z = (z ^ (z >> 30)).wrapping_mul(0xBF58_476D_1CE4_E5B9);
    z = (z ^ (z >> 27)).wrapping_mul(0x94D0_49BB_1331_11EB);
    z ^ (z >> 31)
}

/// Seed of run `index` of a batch started with `seed`, for stream `stream` (one per check/config).
pub fn derive(seed: u64, stream: u64, index: u64) -> u64 {
    let mut x = seed ^ stream.wrapping_mul(0xD1B5_4A32_D192_ED03);
    let a = splitmix(&mut x);
    let mut y = a ^ index.wrapping_mul(0x9E37_79B9_7F4A_7C15);
    splitmix(&mut y)
}

impl Rng {
    pub fn new(seed: u64) -> Rng {
        let mut x = seed;
        let s = [splitmix(&mut x), splitmix(&mut x), splitmix(&mut x), splitmix(&mut x)];
        Rng { s }
    }

    pub fn next(&mut self) -> u64 {
        let r = self.s[1].wrapping_mul(5).rotate_left(7).wrapping_mul(9);
        let t = self.s[1] << 17;
        self.s[2] ^= self.s[0];
        self.s[3] ^= self.s[1];
        self.s[1] ^= self.s[2];
        self.s[0] ^= self.s[3];
        self.s[2] ^= t;
        self.s[3] = self.s[3].rotate_left(45);
        r
    }

    /// Uniform in `0..n` (n > 0).
    pub fn below(&mut self, n: u64) -> u64 {
        debug_assert!(n > 0);
        // multiply-shift; bias is irrelevant here
        ((self.next() as u128 * n as u128) >> 64) as u64
    }

    pub fn usize(&mut self, n: usize) -> usize {
        self.below(n as u64) as usize
    }

    /// Uniform in `lo..=hi`.
    pub fn range(&mut self, lo: i64, hi: i64) -> i64 {
        debug_assert!(lo <= hi);
        let span = (hi as i128 - lo as i128 + 1) as u128;
        if span > u64::MAX as u128 {
            return self.next() as i64;
        }
        (lo as i128 + self.below(span as u64) as i128) as i64
    }

    /// True with probability `num/den`.
    pub fn chance(&mut self, num: u64, den: u64) -> bool {
        self.below(den) < num
    }

    pub fn pick<'a, T>(&mut self, xs: &'a [T]) -> &'a T {
        &xs[self.usize(xs.len())]
    }

    /// Index drawn according to integer weights.
    pub fn weighted(&mut self, weights: &[u32]) -> usize {
        let total: u64 = weights.iter().map(|&w| w as u64).sum();
        debug_assert!(total > 0);
        let mut x = self.below(total);
        for (i, &w) in weights.iter().enumerate() {
            if x < w as u64 {
                return i;
            }
            x -= w as u64;
        }
        weights.len() - 1
    }
}
