//! C18: plan generation (swarm-style), fault configurations F0..F4, minimisation.

use std::sync::Arc;

use crate::gen::{self, ZoneGenCfg};
use crate::model::{Rule, ZoneModel};
use crate::oracle18::{self, Freshness, JudgeStats, Violation};
use crate::plan::{exec, ConvStep, Outcome, Plan, PoolZone, Step};
use crate::rng::Rng;
use crate::tzif;
use crate::worker::{LOCAL_APIS, UTC_APIS};
use crate::world::{Admin, ConvFaults, IoErr, ZONEINFO_DIRS};

#[derive(Clone, Copy, Debug, PartialEq, Eq)]
pub enum Config {
    /// no faults; only TZ changes land inside conversions
    F0,
    /// I/O faults on the load path
    F1,
    /// clock faults (backward jumps)
    F2,
    /// stalls: the clock advances inside a conversion
    F3,
    /// files replaced / deleted inside a conversion
    F4,
}

impl Config {
    pub fn name(self) -> &'static str {
        match self {
            Config::F0 => "F0",
            Config::F1 => "F1",
            Config::F2 => "F2",
            Config::F3 => "F3",
            Config::F4 => "F4",
        }
    }
    pub fn parse(s: &str) -> Option<Config> {
        Some(match s {
            "F0" => Config::F0,
            "F1" => Config::F1,
            "F2" => Config::F2,
            "F3" => Config::F3,
            "F4" => Config::F4,
            _ => return None,
        })
    }
    pub fn stream(self) -> u64 {
        match self {
            Config::F0 => 1800,
            Config::F1 => 1801,
            Config::F2 => 1802,
            Config::F3 => 1803,
            Config::F4 => 1804,
        }
    }
}

/// Real zoneinfo files loaded once at start-up (label, bytes, model if it could be read).
pub struct SysZones {
    pub zones: Vec<(String, Arc<Vec<u8>>, Option<ZoneModel>)>,
}

impl SysZones {
    pub fn load() -> SysZones {
        let mut zones = Vec::new();
        let root = std::path::Path::new("/usr/share/zoneinfo");
        let mut stack = vec![root.to_path_buf()];
        let mut files = Vec::new();
        while let Some(d) = stack.pop() {
            let rd = match std::fs::read_dir(&d) {
                Ok(r) => r,
                Err(_) => continue,
            };
            for e in rd.flatten() {
                let p = e.path();
                // follow symlinks for files, not for directories (posix/ and right/ may loop)
                match std::fs::symlink_metadata(&p) {
                    Ok(m) if m.is_dir() => stack.push(p),
                    Ok(_) => files.push(p),
                    Err(_) => {}
                }
            }
        }
        files.sort();
        for p in files {
            if let Ok(b) = std::fs::read(&p) {
                if b.starts_with(b"TZif") {
                    let label = p.strip_prefix(root).unwrap().to_string_lossy().into_owned();
                    let model = crate::model::read_tzif(&b);
                    zones.push((label, Arc::new(b), model));
                }
            }
        }
        SysZones { zones }
    }
}

/// What the generator knows about a pool zone (for choosing probes that discriminate).
struct PoolInfo {
    model: Option<ZoneModel>,
}

const T_LO: i64 = -2_208_988_800; // 1900
const T_HI: i64 = 4_102_444_800; // 2100

fn small_dst_zone(rng: &mut Rng) -> (ZoneModel, Vec<u8>) {
    let cfg = ZoneGenCfg { limit: 14 * 3600, leaps: false, extreme_times: false, max_trans: 12 };
    loop {
        let g = gen::gen_zone(rng, &cfg);
        if g.tight || g.model.types.iter().any(|t| t.utoff.abs() >= 86_400) {
            continue;
        }
        let (bytes, _) = tzif::write(&g.model, &g.opts);
        return (g.model, bytes);
    }
}

pub struct Generated {
    pub plan: Plan,
}

/// Draw a whole plan from one seed.
pub fn gen_plan(seed: u64, run: u64, cfg: Config, sys: &SysZones) -> Generated {
    let mut rng = Rng::new(crate::rng::derive(seed, cfg.stream(), run));
    let r = &mut rng;

    // ---- zone pool
    let nz = 2 + r.usize(4);
    let mut pool: Vec<PoolZone> = Vec::new();
    let mut info: Vec<PoolInfo> = Vec::new();
    let mut used_off: Vec<i32> = Vec::new();
    for k in 0..nz {
        let kind = r.weighted(&[40, 20, if sys.zones.is_empty() { 0 } else { 12 }, 22, 6]);
        match kind {
            0 => {
                let mut off;
                loop {
                    off = gen::gen_utoff(r, 14 * 3600);
                    if !used_off.contains(&off) {
                        break;
                    }
                }
                used_off.push(off);
                let abbr = gen::gen_abbr(r, false);
                let v = 1 + r.below(3) as u8;
                pool.push(PoolZone {
                    label: format!("z{}:fixed{:+}", k, off),
                    bytes: Arc::new(tzif::fixed_file(off, &abbr, v)),
                    rule: None,
                });
                info.push(PoolInfo { model: Some(ZoneModel::fixed(off, &abbr)) });
            }
            1 => {
                let (m, b) = small_dst_zone(r);
                pool.push(PoolZone { label: format!("z{}:synthetic", k), bytes: Arc::new(b), rule: None });
                info.push(PoolInfo { model: Some(m) });
            }
            2 => {
                let (label, b, m) = &sys.zones[r.usize(sys.zones.len())];
                pool.push(PoolZone { label: format!("z{}:{}", k, label), bytes: b.clone(), rule: None });
                info.push(PoolInfo { model: m.clone() });
            }
            3 => {
                let rule = gen::gen_rule(r, true, false, 14 * 3600);
                let s = tzif::rule_string(&rule, r);
                pool.push(PoolZone { label: format!("z{}:rule", k), bytes: Arc::new(Vec::new()), rule: Some(s) });
                info.push(PoolInfo { model: Some(ZoneModel::from_rule(rule)) });
            }
            _ => {
                // a corrupt file: a valid one torn somewhere
                let (_, b) = small_dst_zone(r);
                let cut = 1 + r.usize(b.len() - 1);
                pool.push(PoolZone {
                    label: format!("z{}:corrupt", k),
                    bytes: Arc::new(b[..cut].to_vec()),
                    rule: None,
                });
                info.push(PoolInfo { model: None });
            }
        }
    }
    let file_zones: Vec<usize> = (0..nz).filter(|&k| pool[k].rule.is_none()).collect();
    let any_file = |r: &mut Rng, file_zones: &Vec<usize>| -> Option<usize> {
        if file_zones.is_empty() {
            None
        } else {
            Some(file_zones[r.usize(file_zones.len())])
        }
    };

    // ---- initial file system and the menu of TZ values
    let mut files0: Vec<(String, usize)> = Vec::new();
    let mut menu: Vec<Option<String>> = vec![None, Some(String::new())];
    let mut paths: Vec<String> = Vec::new();
    if r.chance(4, 5) {
        if let Some(k) = any_file(r, &file_zones) {
            files0.push(("/etc/localtime".into(), k));
        }
    }
    paths.push("/etc/localtime".into());
    let sys0 = match r.below(10) {
        0 | 1 => None,
        2 => Some("Sim/NoSuchSystemZone".to_string()),
        _ => {
            if let Some(k) = any_file(r, &file_zones) {
                files0.push(("/usr/share/zoneinfo/Sim/System".into(), k));
            }
            Some("Sim/System".to_string())
        }
    };
    paths.push("/usr/share/zoneinfo/Sim/System".into());
    for &k in &file_zones {
        let abs = format!("/sim/z{}", k);
        files0.push((abs.clone(), k));
        paths.push(abs.clone());
        menu.push(Some(format!(":{}", abs)));
        menu.push(Some(abs));
        if r.chance(2, 3) {
            let d = r.usize(4);
            // names as the tz database has them: digits, '+', '-', '_', '.' and several levels
            let name = match r.below(6) {
                0 => format!("Sim/GMT+{}", k),
                1 => format!("Sim/GMT-{}", k),
                2 => format!("Sim/Zone.{}", k),
                3 => format!("Sim/North_Dakota/New_Salem{}", k),
                _ => format!("Sim/Zone{}", k),
            };
            let p = format!("{}/{}", ZONEINFO_DIRS[d], name);
            files0.push((p.clone(), k));
            paths.push(p);
            // the same name further down the search path, holding a different zone
            if d < 3 && file_zones.len() > 1 && r.chance(1, 2) {
                let other = file_zones[(file_zones.iter().position(|&x| x == k).unwrap() + 1) % file_zones.len()];
                let d2 = d + 1 + r.usize(3 - d);
                let p2 = format!("{}/{}", ZONEINFO_DIRS[d2], name);
                files0.push((p2.clone(), other));
                paths.push(p2);
            }
            menu.push(Some(name.clone()));
            menu.push(Some(format!(":{}", name)));
            // a sibling whose name is easily confused with this one (other case, one more
            // character, a non-ASCII letter) and which holds a different zone
            if file_zones.len() > 1 && r.chance(1, 3) {
                let other = file_zones[(file_zones.iter().position(|&x| x == k).unwrap() + 1) % file_zones.len()];
                let sib = match r.below(5) {
                    0 => name.to_lowercase(),
                    1 => name.to_uppercase(),
                    2 => format!("{}x", name),
                    3 => format!("{}\u{e9}", name),
                    _ => name.replacen("Sim/", "Sim/\u{c5}", 1),
                };
                let p = format!("{}/{}", ZONEINFO_DIRS[d], sib);
                files0.push((p.clone(), other));
                paths.push(p);
                menu.push(Some(if r.chance(1, 3) { format!(":{}", sib) } else { sib }));
            }
            // the same name with a blank before or after it names no file (and is no rule)
            if r.chance(1, 5) {
                menu.push(Some(match r.below(3) {
                    0 => format!("{} ", name),
                    1 => format!(" {}", name),
                    _ => format!("{}\n", name),
                }));
            }
            // a file of the same relative name in the process's working directory: relative
            // names are relative to the zoneinfo directories, never to the cwd
            if file_zones.len() > 1 && r.chance(1, 3) {
                let other = file_zones[(file_zones.iter().position(|&x| x == k).unwrap() + 1) % file_zones.len()];
                files0.push((name.clone(), other));
                paths.push(name);
            }
        } else if r.chance(1, 4) {
            // a name that exists only in the working directory, not in any zoneinfo directory
            let name = format!("Sim/CwdOnly{}", k);
            files0.push((name.clone(), k));
            menu.push(Some(name.clone()));
            menu.push(Some(format!(":{}", name)));
        }
    }
    // unusually long values: a deep absolute path and a long relative name
    if r.chance(1, 4) {
        if let Some(k) = any_file(r, &file_zones) {
            let deep = format!("/sim/{}/zone{}", vec!["a-rather-long-directory-name"; 9].join("/"), k);
            files0.push((deep.clone(), k));
            paths.push(deep.clone());
            menu.push(Some(if r.chance(1, 2) { format!(":{}", deep) } else { deep }));
            let long = format!("Sim/{}{}", "Very_Long_Zone_Name_".repeat(6), k);
            let d = r.usize(4);
            files0.push((format!("{}/{}", ZONEINFO_DIRS[d], long), k));
            menu.push(Some(long));
        }
    }
    for z in &pool {
        if let Some(s) = &z.rule {
            menu.push(Some(s.clone()));
            // the colon form names a file, never a rule
            if r.chance(1, 3) {
                menu.push(Some(format!(":{}", s)));
            }
            // a rule with blanks or a newline around it (as `TZ="$(cat file)"` or a config file
            // line produces) is still that rule
            if r.chance(1, 4) {
                menu.push(Some(match r.below(3) {
                    0 => format!("{}\n", s),
                    1 => format!(" {}", s),
                    _ => format!("{} ", s),
                }));
            }
            // a file in the working directory that happens to be called like the rule
            if r.chance(1, 6) {
                if let Some(k) = any_file(r, &file_zones) {
                    files0.push((s.clone(), k));
                }
            }
        }
    }
    // unreadable / unparsable / odd values
    let odd = [
        ":/sim/missing",
        "/sim/missing",
        "Sim/Missing",
        ":Sim/Missing",
        "!!garbage",
        "EST",
        "EST5EDT",
        "X",
        ":",
        "Sim",
        ":Sim",
        "/sim",
        "AAA-25",
        ":AAA-7BBB,M3.2.0,M11.1.0",
        ":XYZ-3",
        "AAA3BBB,M13.1.0,M11.1.0",
        "\u{1F600}",
    ];
    for _ in 0..(1 + r.usize(4)) {
        menu.push(Some(r.pick(&odd).to_string()));
    }
    files0.sort();
    files0.dedup_by(|a, b| a.0 == b.0);

    // ---- probes: instants / wall clocks where the pool disagrees
    let mut hot: Vec<i64> = Vec::new();
    for i in &info {
        if let Some(m) = &i.model {
            let pts = m.transition_points(&[1995, 2024, 2037, 2060]);
            for &(t, a, b) in pts.iter().filter(|p| p.0 > T_LO && p.0 < T_HI) {
                hot.push(t);
                hot.push(t + a as i64);
                hot.push(t + b as i64);
            }
        }
    }
    let probe = |r: &mut Rng, hot: &Vec<i64>| -> i64 {
        if !hot.is_empty() && r.chance(1, 2) {
            let base = hot[r.usize(hot.len())];
            (base + *r.pick(&[-3600, -1, 0, 1, 1800, 3600, 86_400, -86_400])).clamp(T_LO, T_HI)
        } else {
            r.range(T_LO, T_HI)
        }
    };

    // ---- swarm: which step kinds, how likely
    let w_set = 15 + r.below(30) as u32;
    let w_wait = 10 + r.below(30) as u32;
    let w_conv = 25 + r.below(40) as u32;
    let w_file = if r.chance(1, 2) { r.below(8) as u32 } else { 0 };
    let w_sys = if r.chance(1, 4) { 2 } else { 0 };
    let w_jump = if cfg == Config::F2 { 6 + r.below(10) as u32 } else { 0 };
    let w_respawn = if r.chance(1, 3) { 1 + r.below(4) as u32 } else { 0 };
    let nworkers = 1 + r.usize(4);
    let nsteps = 5 + r.usize(36);
    let p_inject = *r.pick(&[0u64, 1, 3, 6]); // out of 10
    let p_fault = if cfg == Config::F1 { *r.pick(&[2u64, 4, 7]) } else { 0 };
    let chunking = r.chance(1, 3);

    let waits: [u64; 9] = [0, 1, 500_000_000, 999_999_999, 1_000_000_000, 1_000_000_001, 2_000_000_000, 3_600_000_000_000, 0];
    let gen_wait = |r: &mut Rng| -> u64 {
        let k = r.usize(waits.len());
        if k == waits.len() - 1 {
            r.below(3_000_000_000)
        } else {
            waits[k]
        }
    };
    let gen_set = |r: &mut Rng, menu: &Vec<Option<String>>| -> Admin {
        match r.pick(menu) {
            Some(v) => Admin::SetTz(v.clone()),
            None => Admin::UnsetTz,
        }
    };
    let gen_file_op = |r: &mut Rng, paths: &Vec<String>, file_zones: &Vec<usize>| -> Option<Admin> {
        let path = r.pick(paths).clone();
        if r.chance(1, 4) || file_zones.is_empty() {
            Some(Admin::DelFile { path })
        } else {
            Some(Admin::PutFile { path, zone: file_zones[r.usize(file_zones.len())] })
        }
    };

    let tz0 = r.pick(&menu).clone();
    let mut steps = Vec::new();
    for _ in 0..nsteps {
        match r.weighted(&[w_set, w_wait, w_conv, w_file, w_sys, w_jump, w_respawn]) {
            0 => steps.push(Step::Admin(gen_set(r, &menu))),
            1 => steps.push(Step::Admin(Admin::Wait(gen_wait(r)))),
            2 => {
                let local = r.chance(1, 2);
                let api = if local { *r.pick(&LOCAL_APIS) } else { *r.pick(&UTC_APIS) };
                let mut inject: Vec<(u32, Vec<Admin>)> = Vec::new();
                if r.below(10) < p_inject {
                    for _ in 0..(1 + r.usize(2)) {
                        let ord = *r.pick(&[0u32, 1, 1, 1, 2, 2, 2, 3, 3, 4, 5, 6, 8, 12]);
                        let mut ops = Vec::new();
                        for _ in 0..(1 + r.usize(3)) {
                            let op = match cfg {
                                Config::F0 | Config::F1 => gen_set(r, &menu),
                                Config::F2 => {
                                    if r.chance(1, 2) {
                                        Admin::JumpBack(gen_wait(r))
                                    } else if r.chance(1, 2) {
                                        Admin::Wait(gen_wait(r))
                                    } else {
                                        gen_set(r, &menu)
                                    }
                                }
                                Config::F3 => {
                                    if r.chance(2, 3) && ord > 0 {
                                        Admin::Wait(gen_wait(r))
                                    } else {
                                        gen_set(r, &menu)
                                    }
                                }
                                Config::F4 => {
                                    if r.chance(2, 3) {
                                        gen_file_op(r, &paths, &file_zones).unwrap_or(Admin::UnsetTz)
                                    } else {
                                        gen_set(r, &menu)
                                    }
                                }
                            };
                            ops.push(op);
                        }
                        if !inject.iter().any(|(o, _)| *o == ord) {
                            inject.push((ord, ops));
                        }
                    }
                    inject.sort_by_key(|x| x.0);
                }
                let mut faults = ConvFaults::default();
                if chunking && r.chance(1, 2) {
                    faults.chunk = *r.pick(&[1usize, 2, 3, 7, 16, 31, 32, 33, 100, 1000]);
                }
                if r.below(10) < p_fault {
                    match r.below(8) {
                        0 | 1 | 2 => {
                            let e = *r.pick(&[IoErr::NotFound, IoErr::PermissionDenied, IoErr::TooManyFiles, IoErr::Io]);
                            faults.open_fail.push((r.pick(&paths).clone(), e));
                            if r.chance(1, 4) {
                                faults.open_fail.push((r.pick(&paths).clone(), e));
                            }
                        }
                        3 | 4 => {
                            let n = if r.chance(1, 3) { 0 } else { r.usize(200) };
                            faults.read_fail.push((r.pick(&paths).clone(), n));
                        }
                        5 => faults.lstat_fail = true,
                        6 => faults.mtime_unavailable = true,
                        _ => {
                            for _ in 0..(1 + r.usize(3)) {
                                faults.eintr_at.push(r.below(6) as u32);
                            }
                            faults.eintr_at.sort();
                            faults.eintr_at.dedup();
                        }
                    }
                }
                let worker = r.usize(nworkers);
                let t = probe(r, &hot);
                steps.push(Step::Conv(ConvStep { worker, api, t, inject, faults }));
                // now and then the same value is asked again at once in the other direction
                if r.chance(1, 6) {
                    let api2 = if local { *r.pick(&UTC_APIS) } else { *r.pick(&LOCAL_APIS) };
                    steps.push(Step::Conv(ConvStep { worker, api: api2, t, inject: vec![], faults: ConvFaults::default() }));
                }
            }
            3 => {
                if let Some(op) = gen_file_op(r, &paths, &file_zones) {
                    steps.push(Step::Admin(op));
                }
            }
            4 => steps.push(Step::Admin(Admin::SetSys(match r.below(3) {
                0 => None,
                1 => Some("Sim/System".into()),
                _ => Some("Sim/NoSuchSystemZone".into()),
            }))),
            5 => steps.push(Step::Admin(Admin::JumpBack(gen_wait(r)))),
            _ => steps.push(Step::Respawn(r.usize(nworkers))),
        }
    }
    // the wall clock at the start: usually the 2020s; sometimes a machine without a battery
    // (clock at the epoch, where a backwards jump saturates) or one set centuries ahead
    let clock0_ns = match r.below(12) {
        0 => r.below(3_000_000_000),
        1 => 15_000_000_000_000_000_000 + r.below(1_000_000_000_000),
        _ => 1_600_000_000_000_000_000 + r.below(200_000_000) * 1_000_000_000 + r.below(1_000_000_000),
    };
    Generated {
        plan: Plan {
            property: "C18".into(),
            config: cfg.name().into(),
            seed,
            run,
            pool,
            clock0_ns,
            tz0,
            files0,
            sys0,
            steps,
        },
    }
}

pub fn freshness(cfg: Config) -> Freshness {
    match cfg {
        Config::F2 => Freshness::Lifetime,
        _ => Freshness::Strict,
    }
}

pub fn judge_plan(plan: &Plan, o: &Outcome, stats: &mut JudgeStats) -> Vec<Violation> {
    let cfg = Config::parse(&plan.config).unwrap_or(Config::F0);
    oracle18::judge(o, &plan.pool, freshness(cfg), stats)
}

/// Class of a violation for minimisation and known-finding matching.
pub fn vclass(v: &Violation) -> String {
    match v.rule.as_str() {
        "R2-panic" => {
            // panic location without line number noise: keep file and message head
            let d = v.detail.split(" @ ").collect::<Vec<_>>();
            let loc = d.last().copied().unwrap_or("");
            let loc = match loc.rfind("/src/") {
                Some(i) => &loc[i + 1..],
                None => loc,
            };
            format!("R2-panic:{}", loc)
        }
        r => r.to_string(),
    }
}

/// Delta-debug a failing plan: keep a candidate iff the same class of violation persists.
pub fn minimise(plan: &Plan, class: &str, budget: usize) -> (Plan, usize) {
    let fails = |p: &Plan| -> bool {
        let o = exec(p);
        let mut st = JudgeStats::default();
        judge_plan(p, &o, &mut st).iter().any(|v| vclass(v) == class)
    };
    let mut best = plan.clone();
    let mut used = 0usize;
    // 1. drop step ranges (ddmin)
    let mut chunk = (best.steps.len() / 2).max(1);
    while chunk >= 1 && used < budget {
        let mut i = 0;
        let mut progress = false;
        while i < best.steps.len() && used < budget {
            let mut cand = best.clone();
            let end = (i + chunk).min(cand.steps.len());
            cand.steps.drain(i..end);
            used += 1;
            if !cand.steps.is_empty() && fails(&cand) {
                best = cand;
                progress = true;
            } else {
                i += chunk;
            }
        }
        if chunk == 1 && !progress {
            break;
        }
        if !progress {
            chunk /= 2;
        }
    }
    // 2. simplify conversions: drop injections, faults; move to worker 0
    for i in 0..best.steps.len() {
        if used >= budget {
            break;
        }
        if let Step::Conv(c) = &best.steps[i] {
            let mut variants: Vec<ConvStep> = Vec::new();
            if !c.inject.is_empty() {
                variants.push(ConvStep { inject: vec![], ..c.clone() });
                for k in 0..c.inject.len() {
                    let mut inj = c.inject.clone();
                    inj.remove(k);
                    variants.push(ConvStep { inject: inj, ..c.clone() });
                }
                for k in 0..c.inject.len() {
                    if c.inject[k].1.len() > 1 {
                        for j in 0..c.inject[k].1.len() {
                            let mut inj = c.inject.clone();
                            inj[k].1.remove(j);
                            variants.push(ConvStep { inject: inj, ..c.clone() });
                        }
                    }
                }
            }
            if !c.faults.is_empty() {
                variants.push(ConvStep { faults: ConvFaults::default(), ..c.clone() });
                variants.push(ConvStep { faults: ConvFaults { chunk: 0, ..c.faults.clone() }, ..c.clone() });
                variants.push(ConvStep { faults: ConvFaults { eintr_at: vec![], ..c.faults.clone() }, ..c.clone() });
            }
            for v in variants {
                if used >= budget {
                    break;
                }
                let mut cand = best.clone();
                cand.steps[i] = Step::Conv(v);
                used += 1;
                if fails(&cand) {
                    best = cand;
                }
            }
        }
    }
    // 3. snap waits to canonical values
    for i in 0..best.steps.len() {
        if used >= budget {
            break;
        }
        if let Step::Admin(Admin::Wait(ns)) = &best.steps[i] {
            for canon in [1_000_000_000u64, 0, 999_999_999, 2_000_000_000] {
                if *ns == canon || used >= budget {
                    continue;
                }
                let mut cand = best.clone();
                cand.steps[i] = Step::Admin(Admin::Wait(canon));
                used += 1;
                if fails(&cand) {
                    best = cand;
                    break;
                }
            }
        }
    }
    // 4. drop files that are not needed
    let mut k = 0;
    while k < best.files0.len() && used < budget {
        let mut cand = best.clone();
        cand.files0.remove(k);
        used += 1;
        if fails(&cand) {
            best = cand;
        } else {
            k += 1;
        }
    }
    // 5. one more pass of single-step removal (earlier simplifications may have enabled it)
    let mut i = 0;
    while i < best.steps.len() && used < budget {
        let mut cand = best.clone();
        cand.steps.remove(i);
        used += 1;
        if !cand.steps.is_empty() && fails(&cand) {
            best = cand;
        } else {
            i += 1;
        }
    }
    (best, used)
}

pub fn uses_rule(plan: &Plan) -> bool {
    plan.pool.iter().any(|z| z.rule.is_some())
}

#[allow(dead_code)]
pub fn rule_of(z: &ZoneModel) -> Option<&Rule> {
    z.rule.as_ref()
}
