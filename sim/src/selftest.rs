//! Self-tests of the simulator (not property checks): determinism and stub fidelity.

use std::process::{Command, Stdio};
use std::sync::Arc;

use serde_json::Value;

use crate::c18::{self, Config, SysZones};
use crate::oracle18::JudgeStats;
use crate::plan::{exec, log_hash};
use crate::worker::{convert, Api, Res, Worker};
use crate::world::{ConvFaults, Fs, Inode, SimWorld, State};

/// Hash of the event logs and verdicts of runs `from..to` (one line on stdout).
pub fn loghash(cfg: Config, seed: u64, from: u64, to: u64) -> i32 {
    let sys = SysZones::load();
    let mut h = 0xcbf2_9ce4_8422_2325u64;
    for i in from..to {
        let g = c18::gen_plan(seed, i, cfg, &sys);
        let o = exec(&g.plan);
        let mut st = JudgeStats::default();
        let vs = c18::judge_plan(&g.plan, &o, &mut st);
        crate::plan::fnv(&mut h, &log_hash(&o).to_le_bytes());
        crate::plan::fnv(&mut h, &(vs.len() as u64).to_le_bytes());
        crate::plan::fnv(&mut h, &st.r1_discriminating.to_le_bytes());
    }
    println!("{:016x}", h);
    0
}

fn strip_timing(v: &mut Value) {
    match v {
        Value::Object(m) => {
            for k in ["wall_s", "runs_per_hour", "zones_per_hour", "parses_per_hour"] {
                m.remove(k);
            }
            for (_, x) in m.iter_mut() {
                strip_timing(x);
            }
        }
        Value::Array(a) => {
            for x in a {
                strip_timing(x);
            }
        }
        _ => {}
    }
}

pub fn determinism(seeds: u64) -> i32 {
    let exe = std::env::current_exe().expect("exe");
    let mut bad = 0;
    let mut compared = 0;
    // (a) the same runs executed in separate processes, many at a time (load varies the OS
    // scheduling of the worker threads; the event logs must not care)
    for cfg in ["F0", "F1", "F2", "F3", "F4"] {
        let mut kids = Vec::new();
        for s in 0..seeds {
            for _rep in 0..2 {
                let c = Command::new(&exe)
                    .args(["loghash", cfg, &s.to_string(), "0", "120"])
                    .stdout(Stdio::piped())
                    .spawn()
                    .expect("spawn");
                kids.push((s, c));
            }
        }
        let mut outs: Vec<(u64, String)> = Vec::new();
        for (s, c) in kids {
            let o = c.wait_with_output().expect("wait");
            outs.push((s, String::from_utf8_lossy(&o.stdout).trim().to_string()));
        }
        for p in outs.chunks(2) {
            compared += 1;
            if p[0].1 != p[1].1 || p[0].1.is_empty() {
                println!("DIVERGENCE config={} seed={}: {} vs {}", cfg, p[0].0, p[0].1, p[1].1);
                bad += 1;
            }
        }
    }
    println!("determinism (a): {} seed x config pairs executed twice in separate processes, {} divergences", compared, bad);
    // (b) the evidence of each check must not depend on the number of worker processes
    let base = crate::runner::verif_dir().join("sim").join("target").join("selftest");
    let _ = std::fs::remove_dir_all(&base);
    for (id, scale) in [("C18", "0.02"), ("C05", "0.05"), ("C16", "0.01")] {
        let mut seen: Vec<(usize, String)> = Vec::new();
        for threads in [1usize, 4, 16] {
            let dir = base.join(format!("{}-{}", id, threads));
            std::fs::create_dir_all(&dir).expect("mkdir");
            let st = Command::new(&exe)
                .args(["check", id, "--scale", scale, "--threads", &threads.to_string()])
                .env("VERIF_EVIDENCE_DIR", &dir)
                .stdout(Stdio::null())
                .status()
                .expect("run check");
            if !st.success() {
                println!("check {} exited with {:?} in selftest", id, st.code());
                bad += 1;
            }
            let text = std::fs::read_to_string(dir.join(format!("{}.json", id))).unwrap_or_default();
            let mut v: Value = serde_json::from_str(&text).unwrap_or(Value::Null);
            strip_timing(&mut v);
            seen.push((threads, serde_json::to_string(&v).unwrap()));
        }
        let same = seen.iter().all(|x| x.1 == seen[0].1);
        println!("determinism (b): {} evidence identical for 1/4/16 processes: {}", id, same);
        if !same {
            bad += 1;
        }
    }
    let _ = std::fs::remove_dir_all(&base);
    if bad == 0 {
        println!("selftest determinism: OK");
        0
    } else {
        println!("selftest determinism: FAILED ({} problems)", bad);
        2
    }
}

/// Child process for stub-fidelity: no world installed, so chrono talks to the real OS.
pub fn realtz(probes: &[String]) -> i32 {
    let mut out = Vec::new();
    for p in probes {
        let (kind, t) = p.split_at(1);
        let t: i64 = t.parse().unwrap_or(0);
        let api = if kind == "L" { Api::FromLocal } else { Api::FromUtc };
        out.push(format!("{:?}", crate::worker::guarded(|| convert(api, t)).unwrap_or_else(Res::Panic)));
    }
    println!("{}", out.join("|"));
    0
}

pub fn stub_fidelity() -> i32 {
    let exe = std::env::current_exe().expect("exe");
    let zi = "/usr/share/zoneinfo";
    if !std::path::Path::new(zi).is_dir() {
        println!("selftest stub-fidelity: SKIPPED (no {})", zi);
        return 0;
    }
    // the simulated file system gets the real files at their real paths
    let mut fs = Fs::new();
    let mut pool = Vec::new();
    let mut add = |fs: &mut Fs, path: &str| {
        if let Ok(b) = std::fs::read(path) {
            let a = Arc::new(b);
            pool.push(a.clone());
            fs.insert(path.to_string(), Inode { bytes: a, mtime_ns: 1, zone: 0 });
        }
    };
    for n in ["America/New_York", "Europe/Paris", "Asia/Tokyo", "Australia/Lord_Howe", "Etc/UTC", "UTC", "EST5EDT", "posix/Asia/Kolkata"] {
        add(&mut fs, &format!("{}/{}", zi, n));
    }
    add(&mut fs, "/etc/localtime");
    let sysname = std::fs::read_link("/etc/localtime").ok().and_then(|p| {
        let s = p.to_string_lossy().into_owned();
        s.find("zoneinfo/").map(|i| s[i + 9..].to_string())
    });
    if let Some(n) = &sysname {
        add(&mut fs, &format!("{}/{}", zi, n));
    }
    let scenarios: Vec<Option<&str>> = vec![
        None,
        Some(""),
        Some("America/New_York"),
        Some(":America/New_York"),
        Some("/usr/share/zoneinfo/Europe/Paris"),
        Some(":/usr/share/zoneinfo/Asia/Tokyo"),
        Some("Australia/Lord_Howe"),
        Some("posix/Asia/Kolkata"),
        Some("EST5EDT,M3.2.0,M11.1.0"),
        Some("EST5EDT"),
        Some("<+0330>-3:30"),
        Some(":EST5"),
        Some("!!garbage"),
        Some("Nope/Zone"),
        Some(":Nope/Zone"),
        Some("America"),
        Some(":"),
        Some("/usr/share/zoneinfo"),
    ];
    let probes: Vec<String> = ["U1705000000", "U1720000000", "L1710054000", "L1710037800", "L1730613600", "L1730611800", "U-1000000000", "L0"]
        .iter()
        .map(|s| s.to_string())
        .collect();
    let mut bad = 0;
    for sc in &scenarios {
        // real OS, dedicated child process
        let mut c = Command::new(&exe);
        c.arg("realtz").args(&probes).stdout(Stdio::piped());
        match sc {
            Some(v) => {
                c.env("TZ", v);
            }
            None => {
                c.env_remove("TZ");
            }
        }
        let o = c.output().expect("run realtz");
        let real = String::from_utf8_lossy(&o.stdout).trim().to_string();
        // stub, fresh thread
        let st = State { clock_ns: 1_700_000_000_000_000_000, tz: sc.map(|s| s.to_string()), fs: fs.clone(), sysname: sysname.clone() };
        let world = SimWorld::new(st, pool.clone(), crate::plan::SEAM_CAP);
        let mut w = Worker::spawn(&world);
        world.begin_conv(0, 0, &[], &ConvFaults::default());
        let req: Vec<(Api, i64)> = probes
            .iter()
            .map(|p| (if p.starts_with('L') { Api::FromLocal } else { Api::FromUtc }, p[1..].parse().unwrap()))
            .collect();
        let got = w.batch(req).unwrap_or_default();
        world.end_conv();
        let stub = got.iter().map(|r| format!("{:?}", r)).collect::<Vec<_>>().join("|");
        let same = stub == real;
        println!("TZ={:?}: {}", sc, if same { "same".to_string() } else { format!("DIFFERENT\n  real: {}\n  stub: {}", real, stub) });
        if !same {
            bad += 1;
        }
    }
    if bad == 0 {
        println!("selftest stub-fidelity: OK ({} scenarios x {} probes)", scenarios.len(), probes.len());
        0
    } else {
        println!("selftest stub-fidelity: FAILED");
        2
    }
}

/// Every fault kind, injection point and code path the checks mean to exercise must actually
/// have fired in a (scaled-down) quick run; a probe stuck at zero means the workload or fault mix
/// no longer reaches it.
pub fn reach() -> i32 {
    let exe = std::env::current_exe().expect("exe");
    let base = crate::runner::verif_dir().join("sim").join("target").join("selftest-reach");
    let _ = std::fs::remove_dir_all(&base);
    std::fs::create_dir_all(&base).expect("mkdir");
    let mut bad = 0;
    let mut run = |id: &str, scale: &str| -> Value {
        let st = Command::new(&exe)
            .args(["check", id, "--scale", scale])
            .env("VERIF_EVIDENCE_DIR", &base)
            .stdout(Stdio::null())
            .status()
            .expect("run check");
        if !st.success() {
            println!("check {} exited with {:?}", id, st.code());
        }
        serde_json::from_str(&std::fs::read_to_string(base.join(format!("{}.json", id))).unwrap_or_default()).unwrap_or(Value::Null)
    };
    // C18
    let v = run("C18", "0.3");
    let c = &v["coverage"]["counters_fired"];
    let mut want: Vec<String> = Vec::new();
    for k in ["set_tz", "unset_tz", "wait", "replace_file", "delete_file", "set_system_zone", "clock_jump_back"] {
        want.push(format!("admin.{}", k));
    }
    for k in ["open_enoent", "open_eacces", "open_emfile", "open_eio", "read_eio", "eintr", "short_read", "lstat_error", "mtime_unavailable"] {
        want.push(format!("fault.{}", k));
    }
    for seam in ["now", "env", "lstat", "open", "read", "sysname"] {
        want.push(format!("inject.set_tz.before_{}", seam));
        want.push(format!("inject.wait.before_{}", seam));
        want.push(format!("inject.replace_file.before_{}", seam));
    }
    want.push("inject.clock_jump_back.before_env".into());
    for k in ["first_load_on_fresh_thread", "reuse_within_1s", "revalidate_unchanged", "reload", "lstat_etc_localtime", "fallback_to_system_zone_query", "probe_zoneinfo_dir_1", "probe_zoneinfo_dir_2", "probe_zoneinfo_dir_3", "probe_zoneinfo_dir_4"] {
        want.push(format!("reach.{}", k));
    }
    want.push("fault_relaxations_used".into());
    want.push("rule_q_exclusions".into());
    for k in &want {
        let n = c[k.as_str()].as_u64().unwrap_or(0);
        if n == 0 {
            println!("C18: probe {} never fired", k);
            bad += 1;
        }
    }
    for pc in v["coverage"]["per_config"].as_array().cloned().unwrap_or_default() {
        if pc["r1_discriminating_after_tz_change"].as_u64().unwrap_or(0) == 0 {
            println!("C18: no discriminating evaluation after a TZ change in {}", pc["config"]);
            bad += 1;
        }
    }
    println!("C18: {} probes checked", want.len());
    // C16
    let v = run("C16", "0.1");
    let f = &v["coverage"]["fault_kinds_fired"];
    let mut n16 = 0;
    for k in crate::check16::FAULT_KINDS.iter().copied().chain(["truncation", "isut_without_isstd", "zero_types", "zero_chars", "isstd_count_mismatch", "isut_count_mismatch", "utoff_minimum", "leap_table_invalid", "footer_inconsistent_with_last_transition", "truncate_at_every_k", "byte_flip", "char_insert", "char_delete", "field_month_13", "field_week_0_or_6", "field_weekday_7", "field_julian_out_of_range", "field_hour_out_of_range", "trailing_text", "field_letter_case", "field_non_ascii_digit", "field_inner_blank", "name_non_ascii", "random_bytes", "read.eintr", "read.short_read", "public_route_on_faulted_file", "public_route_on_tz_string"]) {
        n16 += 1;
        if f[k].as_u64().unwrap_or(0) == 0 {
            println!("C16: fault kind {} never fired", k);
            bad += 1;
        }
    }
    for k in ["must_accept", "must_reject", "survive_accepted", "totality_sweeps", "public_route_checks", "content_checks"] {
        if v["coverage"]["verdicts"][k].as_u64().unwrap_or(0) == 0 {
            println!("C16: verdict counter {} is zero", k);
            bad += 1;
        }
    }
    println!("C16: {} fault kinds checked", n16);
    // C05
    let v = run("C05", "0.3");
    for k in ["instant_checks", "wall_checks", "roundtrip_checks", "wall_none", "wall_single", "wall_ambiguous", "exempt_seconds", "skipped_tight_zone"] {
        if v["coverage"]["checks"][k].as_u64().unwrap_or(0) == 0 {
            println!("C05: counter {} is zero", k);
            bad += 1;
        }
    }
    let _ = std::fs::remove_dir_all(&base);
    if bad == 0 {
        println!("selftest reach: OK");
        0
    } else {
        println!("selftest reach: FAILED ({} probes at zero)", bad);
        2
    }
}
