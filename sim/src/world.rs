//! The simulated world behind chrono's `verif-hooks` seam: `TZ`, wall clock, file system,
//! system-zone name. All state lives behind one mutex; exactly one OS thread touches it at a
//! time (the driver blocks while a worker converts), so every run is a pure function of its plan.

use std::collections::BTreeMap;
use std::io;
use std::path::Path;
use std::sync::{Arc, Mutex, MutexGuard};
use std::time::{Duration, SystemTime, UNIX_EPOCH};

use serde::{Deserialize, Serialize};

pub const ZONEINFO_DIRS: [&str; 4] =
    ["/usr/share/zoneinfo", "/share/zoneinfo", "/etc/zoneinfo", "/usr/share/lib/zoneinfo"];

/// Things the environment does to the process (the "admin" actor).
#[derive(Clone, Debug, PartialEq, Eq, Serialize, Deserialize)]
pub enum Admin {
    SetTz(String),
    UnsetTz,
    /// advance the wall clock by nanoseconds
    Wait(u64),
    /// step the wall clock back by nanoseconds (clock fault)
    JumpBack(u64),
    /// atomically replace `path` by pool zone `zone` (new inode, mtime = now)
    PutFile { path: String, zone: usize },
    DelFile { path: String },
    SetSys(Option<String>),
}

impl Admin {
    pub fn kind(&self) -> &'static str {
        match self {
            Admin::SetTz(_) => "set_tz",
            Admin::UnsetTz => "unset_tz",
            Admin::Wait(_) => "wait",
            Admin::JumpBack(_) => "clock_jump_back",
            Admin::PutFile { .. } => "replace_file",
            Admin::DelFile { .. } => "delete_file",
            Admin::SetSys(_) => "set_system_zone",
        }
    }
}

#[derive(Clone, Copy, Debug, PartialEq, Eq, Serialize, Deserialize)]
pub enum IoErr {
    NotFound,
    PermissionDenied,
    TooManyFiles,
    Io,
}

impl IoErr {
    pub fn to_io(self) -> io::Error {
        match self {
            IoErr::NotFound => io::ErrorKind::NotFound.into(),
            IoErr::PermissionDenied => io::ErrorKind::PermissionDenied.into(),
            IoErr::TooManyFiles => io::Error::from_raw_os_error(24),
            IoErr::Io => io::Error::from_raw_os_error(5),
        }
    }
}

/// Faults that hold for the duration of one conversion (a transient state of the world that
/// only the converting thread observes).
#[derive(Clone, Debug, Default, PartialEq, Eq, Serialize, Deserialize)]
pub struct ConvFaults {
    /// `open(path)` fails with the given error
    pub open_fail: Vec<(String, IoErr)>,
    /// reads of `path` fail with EIO once this many bytes have been served
    pub read_fail: Vec<(String, usize)>,
    /// `lstat` fails
    pub lstat_fail: bool,
    /// `lstat` works but the mtime is unavailable
    pub mtime_unavailable: bool,
    /// read calls (ordinal among the conversion's reads) that return EINTR first
    pub eintr_at: Vec<u32>,
    /// maximum number of bytes a single read returns (0 = unlimited)
    pub chunk: usize,
}

impl ConvFaults {
    pub fn is_empty(&self) -> bool {
        *self == ConvFaults::default()
    }
    /// the faults that make a path unreadable (the ones an oracle has to know about)
    pub fn open_blocked(&self, path: &str) -> Option<IoErr> {
        self.open_fail.iter().find(|(p, _)| p == path).map(|x| x.1)
    }
    pub fn read_blocked(&self, path: &str) -> Option<usize> {
        self.read_fail.iter().find(|(p, _)| p == path).map(|x| x.1)
    }
}

#[derive(Clone, Debug)]
pub struct Inode {
    pub bytes: Arc<Vec<u8>>,
    pub mtime_ns: u64,
    /// pool zone the content came from (for logs)
    pub zone: usize,
}

pub type Fs = BTreeMap<String, Inode>;

#[derive(Clone, Debug, PartialEq)]
pub enum Node {
    File(Arc<Vec<u8>>),
    Dir,
    Absent,
}

pub fn norm(path: &str) -> &str {
    let p = path.trim_end_matches('/');
    if p.is_empty() && path.starts_with('/') {
        "/"
    } else {
        p
    }
}

/// What `path` is in `fs`. Directories are implicit: every proper prefix of a file path.
pub fn lookup(fs: &Fs, path: &str) -> Node {
    let p = norm(path);
    if p.is_empty() {
        return Node::Absent;
    }
    if let Some(i) = fs.get(p) {
        // "file/" is ENOTDIR on a real system
        if p.len() != path.len() {
            return Node::Absent;
        }
        return Node::File(i.bytes.clone());
    }
    let prefix = if p == "/" { "/".to_string() } else { format!("{}/", p) };
    if fs.range(prefix.clone()..).next().map_or(false, |(k, _)| k.starts_with(&prefix)) {
        return Node::Dir;
    }
    Node::Absent
}

#[derive(Clone, Debug)]
pub struct State {
    pub clock_ns: u64,
    pub tz: Option<String>,
    pub fs: Fs,
    pub sysname: Option<String>,
}

#[derive(Clone, Copy, Debug, PartialEq, Eq, Hash)]
pub enum Seam {
    Now,
    Env,
    Lstat,
    Open,
    Read,
    SysName,
}

impl Seam {
    pub fn name(self) -> &'static str {
        match self {
            Seam::Now => "now",
            Seam::Env => "env",
            Seam::Lstat => "lstat",
            Seam::Open => "open",
            Seam::Read => "read",
            Seam::SysName => "sysname",
        }
    }
}

#[derive(Clone, Debug)]
pub enum Ev {
    /// an admin event; `within` = (worker, seam-call ordinal it preceded) when injected inside a conversion
    Admin { op: Admin, within: Option<(usize, u32)> },
    Seam { worker: usize, ordinal: u32, kind: Seam, detail: String },
    Invoke { worker: usize, conv: usize },
    Return { worker: usize, conv: usize },
}

#[derive(Clone, Debug)]
pub struct Event {
    pub seq: u64,
    pub clock_ns: u64,
    pub ev: Ev,
}

/// Snapshot of everything zone designation depends on, taken after each admin event.
#[derive(Clone, Debug)]
pub struct Hist {
    pub seq: u64,
    pub clock_ns: u64,
    pub tz: Option<String>,
    pub fs: Arc<Fs>,
    pub sysname: Option<String>,
}

pub struct ConvCtx {
    pub worker: usize,
    pub conv: usize,
    pub ordinal: u32,
    pub reads: u32,
    pub inject: BTreeMap<u32, Vec<Admin>>,
    pub faults: ConvFaults,
    /// which admin kinds were injected before which seam kind (reach probe)
    pub fired_inject: Vec<(Seam, &'static str)>,
    pub fired_faults: Vec<&'static str>,
    pub seams: Vec<Seam>,
    pub opened: Vec<String>,
    pub cap_hit: bool,
}

pub struct Inner {
    pub st: State,
    pub pool: Vec<Arc<Vec<u8>>>,
    pub seq: u64,
    pub log: Vec<Event>,
    pub hist: Vec<Hist>,
    pub conv: Option<ConvCtx>,
    pub seam_cap: u32,
    pub fs_arc: Arc<Fs>,
    pub sim_ns: u64,
}

impl Inner {
    fn push(&mut self, ev: Ev) -> u64 {
        self.seq += 1;
        self.log.push(Event { seq: self.seq, clock_ns: self.st.clock_ns, ev });
        self.seq
    }

    fn snapshot(&mut self, fs_changed: bool) {
        if fs_changed {
            self.fs_arc = Arc::new(self.st.fs.clone());
        }
        self.hist.push(Hist {
            seq: self.seq,
            clock_ns: self.st.clock_ns,
            tz: self.st.tz.clone(),
            fs: self.fs_arc.clone(),
            sysname: self.st.sysname.clone(),
        });
    }

    pub fn apply(&mut self, op: &Admin, within: Option<(usize, u32)>) {
        let mut fs_changed = false;
        match op {
            Admin::SetTz(v) => self.st.tz = Some(v.clone()),
            Admin::UnsetTz => self.st.tz = None,
            Admin::Wait(ns) => {
                self.st.clock_ns = self.st.clock_ns.saturating_add(*ns);
                self.sim_ns = self.sim_ns.saturating_add(*ns);
            }
            Admin::JumpBack(ns) => self.st.clock_ns = self.st.clock_ns.saturating_sub(*ns),
            Admin::PutFile { path, zone } => {
                let bytes = self.pool[*zone].clone();
                self.st.fs.insert(
                    path.clone(),
                    Inode { bytes, mtime_ns: self.st.clock_ns, zone: *zone },
                );
                fs_changed = true;
            }
            Admin::DelFile { path } => {
                self.st.fs.remove(path);
                fs_changed = true;
            }
            Admin::SetSys(n) => self.st.sysname = n.clone(),
        }
        self.push(Ev::Admin { op: op.clone(), within });
        self.snapshot(fs_changed);
    }

    /// Called at the top of every seam call made by a converting worker: run the admin events
    /// the plan schedules before this call, then log the call.
    fn seam(&mut self, kind: Seam, detail: String) {
        let (worker, ordinal, ops) = match self.conv.as_mut() {
            Some(c) => {
                let o = c.ordinal;
                c.ordinal += 1;
                if c.ordinal > self.seam_cap {
                    c.cap_hit = true;
                }
                c.seams.push(kind);
                (c.worker, o, c.inject.remove(&o).unwrap_or_default())
            }
            None => return, // a seam call outside any conversion (not expected); serve silently
        };
        for op in &ops {
            self.apply(op, Some((worker, ordinal)));
            if let Some(c) = self.conv.as_mut() {
                c.fired_inject.push((kind, op.kind()));
            }
        }
        self.push(Ev::Seam { worker, ordinal, kind, detail });
    }

    fn cap_check(&self) {
        if let Some(c) = &self.conv {
            if c.cap_hit {
                panic!("SIM: seam-call cap exceeded ({} calls in one conversion)", c.ordinal);
            }
        }
    }
}

#[derive(Clone)]
pub struct SimWorld {
    pub inner: Arc<Mutex<Inner>>,
}

pub fn lock(m: &Mutex<Inner>) -> MutexGuard<'_, Inner> {
    m.lock().unwrap_or_else(|e| e.into_inner())
}

impl SimWorld {
    pub fn new(st: State, pool: Vec<Arc<Vec<u8>>>, seam_cap: u32) -> SimWorld {
        let fs_arc = Arc::new(st.fs.clone());
        let mut inner = Inner {
            st,
            pool,
            seq: 0,
            log: Vec::new(),
            hist: Vec::new(),
            conv: None,
            seam_cap,
            fs_arc,
            sim_ns: 0,
        };
        inner.snapshot(false);
        SimWorld { inner: Arc::new(Mutex::new(inner)) }
    }

    pub fn lock(&self) -> MutexGuard<'_, Inner> {
        lock(&self.inner)
    }

    pub fn begin_conv(
        &self,
        worker: usize,
        conv: usize,
        inject: &[(u32, Vec<Admin>)],
        faults: &ConvFaults,
    ) -> u64 {
        let mut g = self.lock();
        g.conv = Some(ConvCtx {
            worker,
            conv,
            ordinal: 0,
            reads: 0,
            inject: inject.iter().cloned().collect(),
            faults: faults.clone(),
            fired_inject: Vec::new(),
            fired_faults: Vec::new(),
            seams: Vec::new(),
            opened: Vec::new(),
            cap_hit: false,
        });
        g.push(Ev::Invoke { worker, conv })
    }

    pub fn end_conv(&self) -> (u64, ConvCtx) {
        let mut g = self.lock();
        let c = g.conv.take().expect("end_conv without begin_conv");
        let seq = g.push(Ev::Return { worker: c.worker, conv: c.conv });
        (seq, c)
    }
}

fn st(ns: u64) -> SystemTime {
    UNIX_EPOCH + Duration::from_nanos(ns)
}

impl chrono::__verif::World for SimWorld {
    fn now(&self) -> SystemTime {
        let mut g = self.lock();
        g.seam(Seam::Now, String::new());
        g.cap_check();
        st(g.st.clock_ns)
    }

    fn env_var(&self, key: &str) -> Result<String, std::env::VarError> {
        let mut g = self.lock();
        g.seam(Seam::Env, key.to_string());
        g.cap_check();
        if key != "TZ" {
            return Err(std::env::VarError::NotPresent);
        }
        g.st.tz.clone().ok_or(std::env::VarError::NotPresent)
    }

    fn symlink_mtime(&self, path: &Path) -> io::Result<io::Result<SystemTime>> {
        let path = path.to_string_lossy().into_owned();
        let mut g = self.lock();
        g.seam(Seam::Lstat, path.clone());
        g.cap_check();
        let (lstat_fail, mtime_unavailable) =
            g.conv.as_ref().map_or((false, false), |c| (c.faults.lstat_fail, c.faults.mtime_unavailable));
        if lstat_fail {
            if let Some(c) = g.conv.as_mut() {
                c.fired_faults.push("lstat_error");
            }
            return Err(IoErr::Io.to_io());
        }
        match g.st.fs.get(norm(&path)) {
            Some(i) => {
                if mtime_unavailable {
                    if let Some(c) = g.conv.as_mut() {
                        c.fired_faults.push("mtime_unavailable");
                    }
                    Ok(Err(io::ErrorKind::Unsupported.into()))
                } else {
                    Ok(Ok(st(i.mtime_ns)))
                }
            }
            None => match lookup(&g.st.fs, &path) {
                Node::Dir => Ok(Ok(st(0))),
                _ => Err(io::ErrorKind::NotFound.into()),
            },
        }
    }

    fn open(&self, path: &Path) -> io::Result<Box<dyn io::Read>> {
        let path = path.to_string_lossy().into_owned();
        let mut g = self.lock();
        g.seam(Seam::Open, path.clone());
        g.cap_check();
        if let Some(c) = g.conv.as_mut() {
            c.opened.push(path.clone());
        }
        let blocked = g.conv.as_ref().and_then(|c| c.faults.open_blocked(&path));
        let node = lookup(&g.st.fs, &path);
        if let Some(e) = blocked {
            if node != Node::Absent {
                if let Some(c) = g.conv.as_mut() {
                    c.fired_faults.push(match e {
                        IoErr::NotFound => "open_enoent",
                        IoErr::PermissionDenied => "open_eacces",
                        IoErr::TooManyFiles => "open_emfile",
                        IoErr::Io => "open_eio",
                    });
                }
            }
            return Err(e.to_io());
        }
        match node {
            Node::File(bytes) => Ok(Box::new(SimReader {
                inner: self.inner.clone(),
                path,
                bytes: Some(bytes),
                pos: 0,
            })),
            // opening a directory read-only succeeds on Linux; reading it fails
            Node::Dir => Ok(Box::new(SimReader { inner: self.inner.clone(), path, bytes: None, pos: 0 })),
            Node::Absent => Err(io::ErrorKind::NotFound.into()),
        }
    }

    fn system_tz_name(&self) -> Option<String> {
        let mut g = self.lock();
        g.seam(Seam::SysName, String::new());
        g.cap_check();
        g.st.sysname.clone()
    }
}

/// An open file: pins the content it was opened on (as an open descriptor pins the inode).
struct SimReader {
    inner: Arc<Mutex<Inner>>,
    path: String,
    bytes: Option<Arc<Vec<u8>>>,
    pos: usize,
}

impl io::Read for SimReader {
    fn read(&mut self, buf: &mut [u8]) -> io::Result<usize> {
        let mut g = lock(&self.inner);
        g.seam(Seam::Read, format!("{}@{}", self.path, self.pos));
        g.cap_check();
        let bytes = match &self.bytes {
            Some(b) => b.clone(),
            None => return Err(io::Error::from_raw_os_error(21)), // EISDIR
        };
        let mut chunk = usize::MAX;
        let mut fail_after = None;
        let mut eintr = false;
        if let Some(c) = g.conv.as_mut() {
            let k = c.reads;
            c.reads += 1;
            if c.faults.eintr_at.contains(&k) {
                eintr = true;
                c.fired_faults.push("eintr");
            }
            if c.faults.chunk > 0 {
                chunk = c.faults.chunk;
            }
            fail_after = c.faults.read_blocked(&self.path);
        }
        if eintr {
            return Err(io::ErrorKind::Interrupted.into());
        }
        let mut end = bytes.len();
        if let Some(n) = fail_after {
            if self.pos >= n.min(bytes.len()) {
                if let Some(c) = g.conv.as_mut() {
                    c.fired_faults.push("read_eio");
                }
                return Err(IoErr::Io.to_io());
            }
            end = end.min(n);
        }
        let n = buf.len().min(chunk).min(end - self.pos.min(end));
        if n < buf.len() && self.pos + n < bytes.len() && n > 0 && chunk != usize::MAX {
            if let Some(c) = g.conv.as_mut() {
                if c.fired_faults.last() != Some(&"short_read") {
                    c.fired_faults.push("short_read");
                }
            }
        }
        buf[..n].copy_from_slice(&bytes[self.pos..self.pos + n]);
        self.pos += n;
        Ok(n)
    }
}
