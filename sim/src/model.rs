//! Reference zone model: an independent, definitional reading of TZif data and POSIX TZ rules.
//!
//! Shares no table or formula with chrono: civil dates come from a days-from-civil routine
//! (floor division throughout), rule lookups enumerate the transition instants of the
//! neighbouring years, wall-clock lookups are computed as the pre-image of the instant lookup.

use serde::{Deserialize, Serialize};

#[derive(Clone, Debug, PartialEq, Eq, Serialize, Deserialize)]
pub struct LType {
    pub utoff: i32,
    pub dst: bool,
    /// empty = no abbreviation (TZif only)
    pub abbr: String,
}

#[derive(Clone, Copy, Debug, PartialEq, Eq, Serialize, Deserialize)]
pub enum Day {
    /// `Jn`, 1..=365, Feb 29 never counted
    J1(u16),
    /// `n`, 0..=365, Feb 29 counted
    J0(u16),
    /// `Mm.w.d`
    M { m: u8, w: u8, d: u8 },
}

#[derive(Clone, Debug, PartialEq, Eq, Serialize, Deserialize)]
pub struct AltRule {
    pub std: LType,
    pub dst: LType,
    pub start: Day,
    pub start_time: i32,
    pub end: Day,
    pub end_time: i32,
}

#[derive(Clone, Debug, PartialEq, Eq, Serialize, Deserialize)]
pub enum Rule {
    Fixed(LType),
    Alt(AltRule),
}

#[derive(Clone, Debug, PartialEq, Eq, Serialize, Deserialize, Default)]
pub struct ZoneModel {
    pub types: Vec<LType>,
    /// (instant, type index), strictly increasing
    pub trans: Vec<(i64, usize)>,
    pub leaps: Vec<(i64, i32)>,
    pub rule: Option<Rule>,
}

// ---------------------------------------------------------------- civil calendar

pub fn is_leap(y: i64) -> bool {
    y.rem_euclid(4) == 0 && (y.rem_euclid(100) != 0 || y.rem_euclid(400) == 0)
}

pub fn days_in_month(y: i64, m: i64) -> i64 {
    match m {
        1 | 3 | 5 | 7 | 8 | 10 | 12 => 31,
        4 | 6 | 9 | 11 => 30,
        _ => {
            if is_leap(y) {
                29
            } else {
                28
            }
        }
    }
}

/// Days since 1970-01-01 of the proleptic Gregorian date y-m-d.
pub fn days_from_civil(y: i64, m: i64, d: i64) -> i64 {
    let y = if m <= 2 { y - 1 } else { y };
    let era = y.div_euclid(400);
    let yoe = y.rem_euclid(400);
    let mp = (m + 9).rem_euclid(12);
    let doy = (153 * mp + 2).div_euclid(5) + d - 1;
    let doe = yoe * 365 + yoe.div_euclid(4) - yoe.div_euclid(100) + doy;
    era * 146_097 + doe - 719_468
}

/// Inverse of `days_from_civil`.
pub fn civil_from_days(z: i64) -> (i64, i64, i64) {
    let z = z + 719_468;
    let era = z.div_euclid(146_097);
    let doe = z.rem_euclid(146_097);
    let yoe = (doe - doe.div_euclid(1460) + doe.div_euclid(36_524) - doe.div_euclid(146_096))
        .div_euclid(365);
    let y = yoe + era * 400;
    let doy = doe - (365 * yoe + yoe.div_euclid(4) - yoe.div_euclid(100));
    let mp = (5 * doy + 2).div_euclid(153);
    let d = doy - (153 * mp + 2).div_euclid(5) + 1;
    let m = if mp < 10 { mp + 3 } else { mp - 9 };
    (if m <= 2 { y + 1 } else { y }, m, d)
}

/// 0 = Sunday
pub fn weekday(days: i64) -> i64 {
    (days + 4).rem_euclid(7)
}

pub fn year_of(unix: i64) -> i64 {
    civil_from_days(unix.div_euclid(86_400)).0
}

/// "YYYY-MM-DD hh:mm:ss" of a second count interpreted as a civil time.
pub fn fmt_civil(t: i64) -> String {
    let (y, m, d) = civil_from_days(t.div_euclid(86_400));
    let s = t.rem_euclid(86_400);
    format!("{:04}-{:02}-{:02} {:02}:{:02}:{:02}", y, m, d, s / 3600, s / 60 % 60, s % 60)
}

// ---------------------------------------------------------------- rules

impl Day {
    /// Day number (days since 1970-01-01) this rule day designates in year `y`.
    pub fn in_year(&self, y: i64) -> i64 {
        let jan1 = days_from_civil(y, 1, 1);
        match *self {
            Day::J1(n) => {
                let n = n as i64;
                jan1 + (n - 1) + if is_leap(y) && n >= 60 { 1 } else { 0 }
            }
            Day::J0(n) => jan1 + n as i64,
            Day::M { m, w, d } => {
                let first = days_from_civil(y, m as i64, 1);
                let delta = (d as i64 - weekday(first)).rem_euclid(7);
                let mut day = first + delta + 7 * (w as i64 - 1);
                if day >= first + days_in_month(y, m as i64) {
                    day -= 7;
                }
                day
            }
        }
    }
}

impl AltRule {
    /// Instant at which DST starts in year `y`.
    pub fn start_instant(&self, y: i64) -> i64 {
        self.start.in_year(y) * 86_400 + self.start_time as i64 - self.std.utoff as i64
    }
    /// Instant at which DST ends in year `y`.
    pub fn end_instant(&self, y: i64) -> i64 {
        self.end.in_year(y) * 86_400 + self.end_time as i64 - self.dst.utoff as i64
    }

    /// Transition events (instant, becomes_dst) of years `y0..=y1`, sorted.
    pub fn events(&self, y0: i64, y1: i64) -> Vec<(i64, bool)> {
        let mut ev = Vec::new();
        for y in y0..=y1 {
            ev.push((self.start_instant(y), true));
            ev.push((self.end_instant(y), false));
        }
        ev.sort();
        ev
    }

    pub fn at(&self, u: i64) -> &LType {
        let y = year_of(u);
        let ev = self.events(y - 1, y + 1);
        let mut dst = None;
        for &(t, d) in &ev {
            if t <= u {
                dst = Some(d);
            }
        }
        // Before every event of y-1..y+1 cannot happen for in-class rules; fall back to the
        // state before the first event (the opposite of what the first event establishes).
        let dst = dst.unwrap_or(!ev[0].1);
        if dst {
            &self.dst
        } else {
            &self.std
        }
    }

    /// Is the rule inside the class C05 quantifies over?  Every rule transition lies more than
    /// one day inside its calendar year (as an instant and on both wall clocks), and every
    /// season lasts at least `min_season` seconds, in every year of the 400-year cycle.
    /// Only the second half of `in_class`: every season lasts at least `min_season` seconds in
    /// every year of the cycle (so the order of the transitions never flips), wherever in the
    /// year they fall.
    pub fn seasons_ok(&self, min_season: i64) -> bool {
        let mut prev: Option<i64> = None;
        for y in 1999..=2401 {
            let s = self.start_instant(y);
            let e = self.end_instant(y);
            let (a, b) = if s < e { (s, e) } else { (e, s) };
            if b - a < min_season {
                return false;
            }
            if let Some(p) = prev {
                if a - p < min_season {
                    return false;
                }
            }
            prev = Some(b);
        }
        true
    }

    pub fn in_class(&self, min_season: i64) -> bool {
        let lo_margin = 86_400 + 1;
        let mut prev: Option<i64> = None;
        for y in 1999..=2401 {
            let jan1 = days_from_civil(y, 1, 1) * 86_400;
            let next = days_from_civil(y + 1, 1, 1) * 86_400;
            let s = self.start_instant(y);
            let e = self.end_instant(y);
            for &t in &[s, e] {
                for &o in &[0i64, self.std.utoff as i64, self.dst.utoff as i64] {
                    let w = t + o;
                    if w < jan1 + lo_margin || w > next - lo_margin {
                        return false;
                    }
                }
            }
            let (a, b) = if s < e { (s, e) } else { (e, s) };
            if b - a < min_season {
                return false;
            }
            if let Some(p) = prev {
                if a - p < min_season {
                    return false;
                }
            }
            prev = Some(b);
        }
        true
    }
}

impl Rule {
    pub fn at(&self, u: i64) -> &LType {
        match self {
            Rule::Fixed(t) => t,
            Rule::Alt(a) => a.at(u),
        }
    }
}

// ---------------------------------------------------------------- lookups

/// Answer of the wall-clock lookup: the instants (with their offsets) at which the wall clock
/// shows the given time, earliest first.
pub type Preimage = Vec<(i64, i32)>;

impl ZoneModel {
    pub fn fixed(utoff: i32, abbr: &str) -> ZoneModel {
        ZoneModel {
            types: vec![LType { utoff, dst: false, abbr: abbr.to_string() }],
            ..Default::default()
        }
    }

    /// The local time type in force at instant `u`, exactly as the statement of C05 says.
    pub fn at(&self, u: i64) -> &LType {
        match self.trans.last() {
            None => match &self.rule {
                Some(r) => r.at(u),
                None => &self.types[0],
            },
            Some(&(last_t, last_i)) => {
                if u >= last_t {
                    match &self.rule {
                        Some(r) => r.at(u),
                        None => &self.types[last_i],
                    }
                } else {
                    let k = self.trans.partition_point(|&(t, _)| t <= u);
                    if k == 0 {
                        &self.types[0]
                    } else {
                        &self.types[self.trans[k - 1].1]
                    }
                }
            }
        }
    }

    /// All distinct UTC offsets the zone can ever be at.
    pub fn offsets(&self) -> Vec<i32> {
        let mut v: Vec<i32> = self.types.iter().map(|t| t.utoff).collect();
        match &self.rule {
            Some(Rule::Fixed(t)) => v.push(t.utoff),
            Some(Rule::Alt(a)) => {
                v.push(a.std.utoff);
                v.push(a.dst.utoff)
            }
            None => {}
        }
        v.sort();
        v.dedup();
        v
    }

    /// Definitional pre-image of wall-clock second `w`.
    pub fn preimage(&self, w: i64, offsets: &[i32]) -> Preimage {
        let mut out = Vec::new();
        for &o in offsets {
            let u = match w.checked_sub(o as i64) {
                Some(u) => u,
                None => continue,
            };
            if self.at(u).utoff == o {
                out.push((u, o));
            }
        }
        out.sort();
        out
    }

    /// If `w` is the wall-clock second `T + offset_before` of a transition (table or rule) that
    /// changes the offset, the (before, after) offsets of that transition.
    pub fn exempt_at(&self, w: i64) -> Option<(i32, i32)> {
        let mut prev = self.types.first()?.utoff;
        for &(t, i) in &self.trans {
            let after = self.types[i].utoff;
            if after != prev && t.checked_add(prev as i64) == Some(w) {
                return Some((prev, after));
            }
            prev = after;
        }
        if let Some(Rule::Alt(a)) = &self.rule {
            if a.std.utoff != a.dst.utoff {
                let last_t = self.trans.last().map(|x| x.0);
                let y = year_of(w);
                for yy in y - 1..=y + 1 {
                    let s = a.start_instant(yy);
                    let e = a.end_instant(yy);
                    if last_t.map_or(true, |l| s >= l) && s + a.std.utoff as i64 == w {
                        return Some((a.std.utoff, a.dst.utoff));
                    }
                    if last_t.map_or(true, |l| e >= l) && e + a.dst.utoff as i64 == w {
                        return Some((a.dst.utoff, a.std.utoff));
                    }
                }
            }
        }
        None
    }

    /// Transition instants (table, plus rule events for the given years) with the offsets
    /// before and after each: the points probes are concentrated around.
    pub fn transition_points(&self, rule_years: &[i64]) -> Vec<(i64, i32, i32)> {
        let mut out = Vec::new();
        if self.types.is_empty() {
            return out;
        }
        let mut prev = self.types[0].utoff;
        for &(t, i) in &self.trans {
            out.push((t, prev, self.types[i].utoff));
            prev = self.types[i].utoff;
        }
        if let Some(Rule::Alt(a)) = &self.rule {
            let last_t = self.trans.last().map(|x| x.0);
            for &y in rule_years {
                let s = a.start_instant(y);
                let e = a.end_instant(y);
                if last_t.map_or(true, |l| s > l) {
                    out.push((s, a.std.utoff, a.dst.utoff));
                }
                if last_t.map_or(true, |l| e > l) {
                    out.push((e, a.dst.utoff, a.std.utoff));
                }
            }
        }
        out
    }
}

// ---------------------------------------------------------------- rendering in chrono's Debug shape

fn dbg_type(t: &LType) -> String {
    let name = if t.abbr.is_empty() { "None".to_string() } else { format!("Some({:?})", t.abbr) };
    format!("LocalTimeType {{ ut_offset: {}, is_dst: {}, name: {} }}", t.utoff, t.dst, name)
}

fn dbg_day(d: &Day) -> String {
    match *d {
        Day::J1(n) => format!("Julian1WithoutLeap({})", n),
        Day::J0(n) => format!("Julian0WithLeap({})", n),
        Day::M { m, w, d } => format!("MonthWeekday {{ month: {}, week: {}, week_day: {} }}", m, w, d),
    }
}

pub fn dbg_rule(r: &Rule) -> String {
    match r {
        Rule::Fixed(t) => format!("Fixed({})", dbg_type(t)),
        Rule::Alt(a) => format!(
            "Alternate(AlternateTime {{ std: {}, dst: {}, dst_start: {}, dst_start_time: {}, dst_end: {}, dst_end_time: {} }})",
            dbg_type(&a.std),
            dbg_type(&a.dst),
            dbg_day(&a.start),
            a.start_time,
            dbg_day(&a.end),
            a.end_time
        ),
    }
}

impl ZoneModel {
    /// The model rendered the way `{:?}` renders chrono's `TimeZone`.
    pub fn debug(&self) -> String {
        let trans: Vec<String> = self
            .trans
            .iter()
            .map(|&(t, i)| format!("Transition {{ unix_leap_time: {}, local_time_type_index: {} }}", t, i))
            .collect();
        let types: Vec<String> = self.types.iter().map(dbg_type).collect();
        let leaps: Vec<String> = self
            .leaps
            .iter()
            .map(|&(t, c)| format!("LeapSecond {{ unix_leap_time: {}, correction: {} }}", t, c))
            .collect();
        let rule = match &self.rule {
            None => "None".to_string(),
            Some(r) => format!("Some({})", dbg_rule(r)),
        };
        format!(
            "TimeZone {{ transitions: [{}], local_time_types: [{}], leap_seconds: [{}], extra_rule: {} }}",
            trans.join(", "),
            types.join(", "),
            leaps.join(", "),
            rule
        )
    }

    /// The zone `TimeZone::from_posix_tz` builds for a bare rule string.
    pub fn from_rule(rule: Rule) -> ZoneModel {
        let types = match &rule {
            Rule::Fixed(t) => vec![t.clone()],
            Rule::Alt(a) => vec![a.std.clone(), a.dst.clone()],
        };
        ZoneModel { types, trans: vec![], leaps: vec![], rule: Some(rule) }
    }
}

impl ZoneModel {
    /// What chrono's reader built, as plain data (through the accessor's structured view, so
    /// that nothing here depends on chrono's `Debug` output).
    pub fn from_view(v: &chrono::__verif::ZoneView) -> ZoneModel {
        use chrono::__verif::{DayView, RuleView};
        let ty = |t: &chrono::__verif::TypeView| LType { utoff: t.0, dst: t.1, abbr: t.2.clone().unwrap_or_default() };
        let day = |d: &DayView| match *d {
            DayView::Julian1(n) => Day::J1(n),
            DayView::Julian0(n) => Day::J0(n),
            DayView::MonthWeekday(m, w, d) => Day::M { m, w, d },
        };
        ZoneModel {
            types: v.types.iter().map(ty).collect(),
            trans: v.transitions.clone(),
            leaps: v.leap_seconds.clone(),
            rule: v.rule.as_ref().map(|r| match r {
                RuleView::Fixed(t) => Rule::Fixed(ty(t)),
                RuleView::Alternate(s, d, a, at, b, bt) => Rule::Alt(AltRule {
                    std: ty(s),
                    dst: ty(d),
                    start: day(a),
                    start_time: *at,
                    end: day(b),
                    end_time: *bt,
                }),
            }),
        }
    }
}

// ---------------------------------------------------------------- POSIX TZ strings: reference reader

struct P<'a> {
    s: &'a [u8],
    i: usize,
}

impl<'a> P<'a> {
    fn peek(&self) -> Option<u8> {
        self.s.get(self.i).copied()
    }
    fn eat(&mut self, c: u8) -> bool {
        if self.peek() == Some(c) {
            self.i += 1;
            true
        } else {
            false
        }
    }
    /// 1..=max_digits decimal digits
    fn num(&mut self, max_digits: usize) -> Option<i32> {
        let start = self.i;
        while self.i < self.s.len() && self.s[self.i].is_ascii_digit() && self.i - start < max_digits {
            self.i += 1;
        }
        if self.i == start {
            return None;
        }
        if self.peek().map_or(false, |c| c.is_ascii_digit()) {
            return None; // too many digits
        }
        std::str::from_utf8(&self.s[start..self.i]).ok()?.parse().ok()
    }
    fn name(&mut self) -> Option<String> {
        let start;
        let end;
        if self.eat(b'<') {
            start = self.i;
            while self.peek().map_or(false, |c| c.is_ascii_alphanumeric() || c == b'+' || c == b'-') {
                self.i += 1;
            }
            end = self.i;
            if !self.eat(b'>') {
                return None;
            }
        } else {
            start = self.i;
            while self.peek().map_or(false, |c| c.is_ascii_alphabetic()) {
                self.i += 1;
            }
            end = self.i;
        }
        let n = &self.s[start..end];
        // POSIX: at least three characters; chrono documents 3..=7 (its buffer) as its limit
        if n.len() < 3 || n.len() > 7 {
            return None;
        }
        Some(String::from_utf8(n.to_vec()).ok()?)
    }
    /// `[+-]hh[:mm[:ss]]`; returns seconds (sign applied)
    fn hms(&mut self, signed: bool, max_hour: i32, hour_digits: usize) -> Option<i32> {
        let mut sign = 1;
        if signed {
            if self.eat(b'-') {
                sign = -1;
            } else {
                self.eat(b'+');
            }
        }
        let h = self.num(hour_digits)?;
        let mut m = 0;
        let mut s = 0;
        if self.eat(b':') {
            m = self.num(2)?;
            if self.eat(b':') {
                s = self.num(2)?;
            }
        }
        if h > max_hour || m > 59 || s > 59 {
            return None;
        }
        Some(sign * (h * 3600 + m * 60 + s))
    }
    fn day(&mut self, extended: bool) -> Option<(Day, i32)> {
        let day = if self.eat(b'M') {
            let m = self.num(2)?;
            if !self.eat(b'.') {
                return None;
            }
            let w = self.num(1)?;
            if !self.eat(b'.') {
                return None;
            }
            let d = self.num(1)?;
            if !(1..=12).contains(&m) || !(1..=5).contains(&w) || !(0..=6).contains(&d) {
                return None;
            }
            Day::M { m: m as u8, w: w as u8, d: d as u8 }
        } else if self.eat(b'J') {
            let n = self.num(3)?;
            if !(1..=365).contains(&n) {
                return None;
            }
            Day::J1(n as u16)
        } else {
            let n = self.num(3)?;
            if !(0..=365).contains(&n) {
                return None;
            }
            Day::J0(n as u16)
        };
        let time = if self.eat(b'/') {
            if extended {
                self.hms(true, 167, 3)?
            } else {
                self.hms(false, 24, 2)?
            }
        } else {
            7200
        };
        Some((day, time))
    }
}

/// Reference reader for the two POSIX forms `std offset` and
/// `std offset dst [offset],start[/time],end[/time]`. `None` = not of these forms.
pub fn parse_posix_tz(s: &[u8], extended: bool) -> Option<Rule> {
    let mut p = P { s, i: 0 };
    let std_name = p.name()?;
    let std_off = p.hms(true, 24, 2)?;
    if p.i == s.len() {
        return Some(Rule::Fixed(LType { utoff: -std_off, dst: false, abbr: std_name }));
    }
    let dst_name = p.name()?;
    let dst_off = if p.peek() == Some(b',') { std_off - 3600 } else { p.hms(true, 24, 2)? };
    if !p.eat(b',') {
        return None;
    }
    let (start, start_time) = p.day(extended)?;
    if !p.eat(b',') {
        return None;
    }
    let (end, end_time) = p.day(extended)?;
    if p.i != s.len() {
        return None;
    }
    Some(Rule::Alt(AltRule {
        std: LType { utoff: -std_off, dst: false, abbr: std_name },
        dst: LType { utoff: -dst_off, dst: true, abbr: dst_name },
        start,
        start_time,
        end,
        end_time,
    }))
}

// ---------------------------------------------------------------- TZif: independent reader

fn be32(b: &[u8], i: usize) -> Option<u32> {
    Some(u32::from_be_bytes(b.get(i..i + 4)?.try_into().ok()?))
}

/// Independent, minimal TZif reader (versions 1-3). Used for the system zoneinfo files, whose
/// model is not known from a writer. Returns the model and whether the file has leap records.
pub fn read_tzif(b: &[u8]) -> Option<ZoneModel> {
    if b.get(0..4)? != b"TZif" {
        return None;
    }
    let version = *b.get(4)?;
    let counts = |off: usize| -> Option<[usize; 6]> {
        let mut c = [0usize; 6];
        for k in 0..6 {
            c[k] = be32(b, off + 20 + 4 * k)? as usize;
        }
        Some(c)
    };
    let block_len = |c: &[usize; 6], ts: usize| c[3] * ts + c[3] + c[4] * 6 + c[5] + c[2] * (ts + 4) + c[1] + c[0];
    let (hdr, ts) = if version == 0 {
        (0usize, 4usize)
    } else {
        let c1 = counts(0)?;
        (44 + block_len(&c1, 4), 8usize)
    };
    if version != 0 && b.get(hdr..hdr + 4)? != b"TZif" {
        return None;
    }
    let c = counts(hdr)?;
    let (isut, isstd, leap, timecnt, typecnt, charcnt) = (c[0], c[1], c[2], c[3], c[4], c[5]);
    let _ = (isut, isstd);
    let mut p = hdr + 44;
    let rd_time = |p: usize| -> Option<i64> {
        if ts == 4 {
            Some(i32::from_be_bytes(b.get(p..p + 4)?.try_into().ok()?) as i64)
        } else {
            Some(i64::from_be_bytes(b.get(p..p + 8)?.try_into().ok()?))
        }
    };
    let mut times = Vec::new();
    for k in 0..timecnt {
        times.push(rd_time(p + k * ts)?);
    }
    p += timecnt * ts;
    let idx: Vec<usize> = b.get(p..p + timecnt)?.iter().map(|&x| x as usize).collect();
    p += timecnt;
    let tt = b.get(p..p + typecnt * 6)?;
    p += typecnt * 6;
    let chars = b.get(p..p + charcnt)?;
    p += charcnt;
    let mut types = Vec::new();
    for k in 0..typecnt {
        let r = &tt[k * 6..k * 6 + 6];
        let utoff = i32::from_be_bytes(r[0..4].try_into().ok()?);
        let ai = r[5] as usize;
        let tail = chars.get(ai..)?;
        let n = tail.iter().position(|&c| c == 0)?;
        types.push(LType { utoff, dst: r[4] != 0, abbr: String::from_utf8(tail[..n].to_vec()).ok()? });
    }
    let mut leaps = Vec::new();
    for k in 0..leap {
        let q = p + k * (ts + 4);
        leaps.push((rd_time(q)?, be32(b, q + ts)? as i32));
    }
    p += leap * (ts + 4) + c[1] + c[0];
    let rule = if version != 0 {
        let f = b.get(p..)?;
        if f.first() != Some(&b'\n') || f.last() != Some(&b'\n') || f.len() < 2 {
            return None;
        }
        let body = &f[1..f.len() - 1];
        if body.is_empty() {
            None
        } else {
            Some(parse_posix_tz(body, version >= b'3')?)
        }
    } else {
        None
    };
    let trans = times.into_iter().zip(idx).collect();
    Some(ZoneModel { types, trans, leaps, rule })
}

#[cfg(test)]
mod tests {
    use super::*;
    #[test]
    fn civil_roundtrip() {
        for z in (-800_000..800_000).step_by(37) {
            let (y, m, d) = civil_from_days(z);
            assert_eq!(days_from_civil(y, m, d), z);
        }
        assert_eq!(days_from_civil(1970, 1, 1), 0);
        assert_eq!(days_from_civil(2000, 3, 1), 11017);
        assert_eq!(weekday(0), 4);
    }
    #[test]
    fn us_rule() {
        let r = parse_posix_tz(b"EST5EDT,M3.2.0,M11.1.0", false).unwrap();
        if let Rule::Alt(a) = &r {
            // 2024-03-10 07:00:00Z and 2024-11-03 06:00:00Z
            assert_eq!(a.start_instant(2024), 1710054000);
            assert_eq!(a.end_instant(2024), 1730613600);
            assert!(a.in_class(14 * 86400));
        } else {
            panic!()
        }
    }
}
