//! Model-driven TZif writer (RFC 8536 versions 1-3) and POSIX TZ string writer.
//! Everything emitted here is what a conforming writer may emit.

use crate::model::{AltRule, Day, LType, Rule, ZoneModel};
use crate::rng::Rng;

#[derive(Clone, Debug)]
pub struct TzifOpts {
    /// 1, 2 or 3
    pub version: u8,
    /// v2+ only: write the 32-bit block with real data ("fat") rather than the minimal one ("slim")
    pub fat_v1: bool,
    /// standard/wall indicators: empty or one per type
    pub isstd: Vec<u8>,
    /// UT/local indicators: empty or one per type
    pub isut: Vec<u8>,
    /// let abbreviations share storage when one is a suffix of another (as zic does)
    pub share_suffix: bool,
    /// v2+ only: text between the two newlines of the footer
    pub footer: String,
}

/// Byte ranges of the parts of a written file (for structured fault injection).
#[derive(Clone, Debug, Default)]
pub struct Layout {
    pub version: u8,
    /// start of the header of the block chrono decodes (0 for v1 files)
    pub hdr: usize,
    pub time_size: usize,
    pub times: (usize, usize),
    pub idx: (usize, usize),
    pub ttinfo: (usize, usize),
    pub chars: (usize, usize),
    pub leaps: (usize, usize),
    pub isstd: (usize, usize),
    pub isut: (usize, usize),
    /// footer including both newlines (empty range for v1)
    pub footer: (usize, usize),
    /// the ignored 32-bit block of a v2+ file: (start of its data, end)
    pub v1_data: (usize, usize),
    pub typecnt: usize,
    pub timecnt: usize,
    pub charcnt: usize,
}

/// Abbreviation table and the index of each type's abbreviation in it.
pub fn abbr_table(types: &[LType], share_suffix: bool) -> (Vec<u8>, Vec<u8>) {
    let mut table: Vec<u8> = Vec::new();
    let mut order: Vec<usize> = (0..types.len()).collect();
    // longest first, so shorter ones can point into them
    order.sort_by(|&a, &b| types[b].abbr.len().cmp(&types[a].abbr.len()).then(a.cmp(&b)));
    let mut idx = vec![0u8; types.len()];
    for &k in &order {
        let a = types[k].abbr.as_bytes();
        let mut needle = a.to_vec();
        needle.push(0);
        let mut found = None;
        if share_suffix || a.is_empty() {
            for p in 0..table.len() {
                if table[p..].starts_with(&needle) && (share_suffix || p == 0 || table[p - 1] == 0 || a.is_empty()) {
                    found = Some(p);
                    break;
                }
            }
        } else {
            // exact reuse of an identical abbreviation only
            let mut p = 0;
            while p < table.len() {
                let end = p + table[p..].iter().position(|&c| c == 0).unwrap();
                if &table[p..end] == a {
                    found = Some(p);
                    break;
                }
                p = end + 1;
            }
        }
        let p = match found {
            Some(p) => p,
            None => {
                let p = table.len();
                table.extend_from_slice(&needle);
                p
            }
        };
        assert!(p < 256, "abbreviation table too large for u8 indices");
        idx[k] = p as u8;
    }
    if table.is_empty() {
        table.push(0);
    }
    (table, idx)
}

fn block(
    out: &mut Vec<u8>,
    version_byte: u8,
    ts: usize,
    m: &ZoneModel,
    o: &TzifOpts,
    lay: Option<&mut Layout>,
) {
    let (table, idx) = abbr_table(&m.types, o.share_suffix);
    let hdr = out.len();
    out.extend_from_slice(b"TZif");
    out.push(version_byte);
    out.extend_from_slice(&[0u8; 15]);
    for c in [o.isut.len(), o.isstd.len(), m.leaps.len(), m.trans.len(), m.types.len(), table.len()] {
        out.extend_from_slice(&(c as u32).to_be_bytes());
    }
    let put_time = |out: &mut Vec<u8>, t: i64| {
        if ts == 4 {
            out.extend_from_slice(&(t as i32).to_be_bytes())
        } else {
            out.extend_from_slice(&t.to_be_bytes())
        }
    };
    let a = out.len();
    for &(t, _) in &m.trans {
        put_time(out, t);
    }
    let b = out.len();
    for &(_, i) in &m.trans {
        out.push(i as u8);
    }
    let c = out.len();
    for (k, t) in m.types.iter().enumerate() {
        out.extend_from_slice(&t.utoff.to_be_bytes());
        out.push(t.dst as u8);
        out.push(idx[k]);
    }
    let d = out.len();
    out.extend_from_slice(&table);
    let e = out.len();
    for &(t, corr) in &m.leaps {
        put_time(out, t);
        out.extend_from_slice(&corr.to_be_bytes());
    }
    let f = out.len();
    out.extend_from_slice(&o.isstd);
    let g = out.len();
    out.extend_from_slice(&o.isut);
    let h = out.len();
    if let Some(l) = lay {
        l.hdr = hdr;
        l.time_size = ts;
        l.times = (a, b);
        l.idx = (b, c);
        l.ttinfo = (c, d);
        l.chars = (d, e);
        l.leaps = (e, f);
        l.isstd = (f, g);
        l.isut = (g, h);
        l.typecnt = m.types.len();
        l.timecnt = m.trans.len();
        l.charcnt = table.len();
    }
}

/// Serialise `m`. For version 1 the model must fit 32-bit times and have no rule.
pub fn write(m: &ZoneModel, o: &TzifOpts) -> (Vec<u8>, Layout) {
    let mut out = Vec::new();
    let mut lay = Layout { version: o.version, ..Default::default() };
    if o.version == 1 {
        block(&mut out, 0, 4, m, o, Some(&mut lay));
        return (out, lay);
    }
    let vb = if o.version == 2 { b'2' } else { b'3' };
    // 32-bit block
    if o.fat_v1 {
        let fits = |t: i64| t >= i32::MIN as i64 && t <= i32::MAX as i64;
        let m1 = ZoneModel {
            types: m.types.clone(),
            trans: m.trans.iter().copied().filter(|&(t, _)| fits(t)).collect(),
            leaps: m.leaps.iter().copied().filter(|&(t, _)| fits(t)).collect(),
            rule: None,
        };
        block(&mut out, vb, 4, &m1, o, None);
    } else {
        let m1 = ZoneModel {
            types: vec![LType { utoff: 0, dst: false, abbr: String::new() }],
            ..Default::default()
        };
        let o1 = TzifOpts { isstd: vec![], isut: vec![], ..o.clone() };
        block(&mut out, vb, 4, &m1, &o1, None);
    }
    lay.v1_data = (44, out.len());
    block(&mut out, vb, 8, m, o, Some(&mut lay));
    let a = out.len();
    out.push(b'\n');
    out.extend_from_slice(o.footer.as_bytes());
    out.push(b'\n');
    lay.footer = (a, out.len());
    (out, lay)
}

/// Smallest conforming file for a fixed offset (used for zone pools).
pub fn fixed_file(utoff: i32, abbr: &str, version: u8) -> Vec<u8> {
    let m = ZoneModel::fixed(utoff, abbr);
    let o = TzifOpts {
        version,
        fat_v1: false,
        isstd: vec![],
        isut: vec![],
        share_suffix: false,
        footer: String::new(),
    };
    write(&m, &o).0
}

// ---------------------------------------------------------------- TZ strings

fn fmt_name(n: &str, rng: &mut Rng) -> String {
    let alpha = n.bytes().all(|c| c.is_ascii_alphabetic());
    if alpha && rng.chance(4, 5) {
        n.to_string()
    } else {
        format!("<{}>", n)
    }
}

/// `[+-]h[h][:mm[:ss]]` for `secs`, varying the optional parts.
fn fmt_hms(secs: i32, allow_plus: bool, rng: &mut Rng) -> String {
    let neg = secs < 0;
    let a = secs.unsigned_abs();
    let (h, m, s) = (a / 3600, a / 60 % 60, a % 60);
    let mut out = String::new();
    if neg {
        out.push('-');
    } else if allow_plus && rng.chance(1, 6) {
        out.push('+');
    }
    if h < 10 && rng.chance(1, 3) {
        out.push_str(&format!("0{}", h));
    } else {
        out.push_str(&format!("{}", h));
    }
    let style = rng.below(4);
    if s != 0 || style == 3 {
        out.push_str(&format!(":{:02}:{:02}", m, s));
    } else if m != 0 || style == 2 {
        out.push_str(&format!(":{:02}", m));
    }
    out
}

fn fmt_day(d: &Day) -> String {
    match *d {
        Day::J1(n) => format!("J{}", n),
        Day::J0(n) => format!("{}", n),
        Day::M { m, w, d } => format!("M{}.{}.{}", m, w, d),
    }
}

/// Write `rule` as a POSIX TZ string of the forms `std offset` /
/// `std offset dst [offset],start[/time],end[/time]`, varying everything optional.
pub fn rule_string(rule: &Rule, rng: &mut Rng) -> String {
    match rule {
        Rule::Fixed(t) => format!("{}{}", fmt_name(&t.abbr, rng), fmt_hms(-t.utoff, true, rng)),
        Rule::Alt(AltRule { std, dst, start, start_time, end, end_time }) => {
            let mut s = format!("{}{}", fmt_name(&std.abbr, rng), fmt_hms(-std.utoff, true, rng));
            s.push_str(&fmt_name(&dst.abbr, rng));
            if dst.utoff != std.utoff + 3600 || rng.chance(1, 4) {
                s.push_str(&fmt_hms(-dst.utoff, true, rng));
            }
            for (d, t) in [(start, *start_time), (end, *end_time)] {
                s.push(',');
                s.push_str(&fmt_day(d));
                if t != 7200 || rng.chance(1, 4) {
                    s.push('/');
                    s.push_str(&fmt_hms(t, false, rng));
                }
            }
            s
        }
    }
}
