//! Batch plumbing: a deterministic parallel map, evidence files, known findings, replay files.

use std::sync::atomic::{AtomicU64, Ordering};
use std::sync::Mutex;
use std::time::Instant;

use serde_json::{json, Value};

/// Map `f` over `0..n` on `threads` OS threads; results come back in index order, so whatever
/// is computed from them does not depend on the thread count.
pub fn par_map<T: Send, F: Fn(u64) -> T + Sync>(n: u64, threads: usize, f: F) -> Vec<T> {
    let next = AtomicU64::new(0);
    let slots: Mutex<Vec<Option<T>>> = Mutex::new((0..n).map(|_| None).collect());
    std::thread::scope(|s| {
        for _ in 0..threads.max(1) {
            s.spawn(|| loop {
                let i = next.fetch_add(1, Ordering::Relaxed);
                if i >= n {
                    break;
                }
                let r = f(i);
                slots.lock().unwrap()[i as usize] = Some(r);
            });
        }
    });
    slots.into_inner().unwrap().into_iter().map(|x| x.expect("slot filled")).collect()
}

/// Run `sim shard <args> <from> <to> <dir>/<k>` in `procs` child processes over `0..n` and return
/// the directory holding each shard's output files `<k>.json` (+ side files). Separate
/// processes, because the simulation spawns OS threads at a rate at which the threads of one
/// process serialise on the kernel's address-space lock.
pub fn spawn_shards(args: &[String], n: u64, procs: usize) -> (std::path::PathBuf, usize) {
    let procs = procs.max(1).min(n.max(1) as usize);
    let dir = verif_dir().join("sim").join("target").join("shards").join(format!("{}", std::process::id()));
    let _ = std::fs::remove_dir_all(&dir);
    std::fs::create_dir_all(&dir).expect("create shard dir");
    let exe = std::env::current_exe().expect("current_exe");
    let mut kids = Vec::new();
    for k in 0..procs {
        let a = n * k as u64 / procs as u64;
        let b = n * (k as u64 + 1) / procs as u64;
        let mut c = std::process::Command::new(&exe);
        c.arg("shard");
        for x in args {
            c.arg(x);
        }
        c.arg(a.to_string()).arg(b.to_string()).arg(dir.join(format!("{}", k)));
        c.stdin(std::process::Stdio::null());
        kids.push(c.spawn().expect("spawn shard"));
    }
    for (k, mut c) in kids.into_iter().enumerate() {
        let st = c.wait().expect("wait shard");
        if st.code() == Some(4) {
            // a panic escaped every guard in the shard; `<k>.crash` holds message and location.
            // Inside /repo it is the code under test that panicked (a violation the check could
            // not attribute to an input); anywhere else the harness is broken.
            let msg = std::fs::read_to_string(dir.join(format!("{}.crash", k))).unwrap_or_default();
            if msg.contains("/repo/") {
                println!("violation: panic outside every guard of the harness :: {}", msg);
                let rp = verif_dir().join("replays").join("unattributed-panic.txt");
                let _ = std::fs::create_dir_all(rp.parent().unwrap());
                let _ = std::fs::write(&rp, format!("{}\nshard arguments: {:?}\n", msg, args));
                println!("VIOLATION property={} replay={}", args.first().cloned().unwrap_or_default(), rp.display());
                std::process::exit(1);
            }
            eprintln!("harness error: shard {} panicked: {}", k, msg);
            std::process::exit(2);
        }
        if st.code() == Some(3) {
            // the shard's watchdog fired: a hang, recorded in <k>.hang; the rest of that shard's
            // range is lost, the check reports the hang
            continue;
        }
        if !st.success() {
            eprintln!("harness error: shard {} exited with {:?}", k, st.code());
            std::process::exit(2);
        }
    }
    (dir, procs)
}

/// Watchdog for shards whose work runs in-process (no seam to count): the shard publishes what it
/// is working on; if that does not change for `limit`, the input is reported as a hang and the
/// shard exits with code 3. Which input hangs is deterministic; only the detection delay is not.
pub struct Heartbeat {
    /// (beat counter, description of the current input, its bytes)
    pub current: std::sync::Arc<Mutex<(u64, String, Vec<u8>)>>,
    stop: std::sync::Arc<std::sync::atomic::AtomicBool>,
}

impl Drop for Heartbeat {
    fn drop(&mut self) {
        self.stop.store(true, Ordering::SeqCst);
    }
}

impl Heartbeat {
    pub fn start(out: &str, limit: std::time::Duration) -> Heartbeat {
        let current = std::sync::Arc::new(Mutex::new((0u64, String::new(), Vec::new())));
        let c2 = current.clone();
        let out = out.to_string();
        let stop = std::sync::Arc::new(std::sync::atomic::AtomicBool::new(false));
        let stop2 = stop.clone();
        std::thread::spawn(move || {
            let mut last = (u64::MAX, Instant::now());
            loop {
                std::thread::sleep(std::time::Duration::from_millis(500));
                if stop2.load(Ordering::SeqCst) {
                    return;
                }
                let n = c2.lock().map(|g| g.0).unwrap_or(0);
                if n != last.0 {
                    last = (n, Instant::now());
                } else if last.1.elapsed() > limit && n > 0 {
                    let (what, bytes) = c2.lock().map(|g| (g.1.clone(), g.2.clone())).unwrap_or_default();
                    let v = serde_json::json!({"what": what, "hex": crate::plan::hexbytes::hex(&bytes)});
                    let _ = std::fs::write(format!("{}.hang", out), v.to_string());
                    std::process::exit(3);
                }
            }
        });
        Heartbeat { current, stop }
    }
    pub fn beat(&self, what: &str, bytes: &[u8]) {
        if let Ok(mut g) = self.current.lock() {
            g.0 += 1;
            g.1.clear();
            g.1.push_str(what);
            g.2.clear();
            g.2.extend_from_slice(bytes);
        }
    }
}

pub fn write_hashes(path: &std::path::Path, hs: &std::collections::HashSet<u64>) {
    let mut v: Vec<u64> = hs.iter().copied().collect();
    v.sort_unstable();
    let mut bytes = Vec::with_capacity(v.len() * 8);
    for x in v {
        bytes.extend_from_slice(&x.to_le_bytes());
    }
    std::fs::write(path, bytes).expect("write hashes");
}

pub fn read_hashes(path: &std::path::Path, into: &mut std::collections::HashSet<u64>) {
    if let Ok(b) = std::fs::read(path) {
        for c in b.chunks_exact(8) {
            into.insert(u64::from_le_bytes(c.try_into().unwrap()));
        }
    }
}

pub struct Opts {
    pub tier: String,
    pub seed: u64,
    pub threads: usize,
    pub scale: f64,
}

pub const DEFAULT_SEED: u64 = 20_261_001;

pub fn verif_dir() -> std::path::PathBuf {
    if let Ok(d) = std::env::var("VERIF_DIR") {
        return d.into();
    }
    // the binary lives in <verif>/sim/target/release/
    let exe = std::env::current_exe().unwrap_or_default();
    let mut p = exe.clone();
    for _ in 0..4 {
        p.pop();
    }
    if p.join("properties.jsonl").exists() {
        return p;
    }
    "/verif".into()
}

pub struct Evidence {
    pub property: String,
    pub level: String,
    pub coverage: Value,
    pub assumptions: Vec<String>,
    pub violations: usize,
}

pub fn write_evidence(opts: &Opts, start: Instant, e: Evidence) {
    let wall = start.elapsed().as_secs_f64();
    let mut coverage = e.coverage;
    coverage["known_findings_reported"] = json!(KNOWN_SEEN.with(|s| s.borrow().clone()));
    let v = json!({
        "property_id": e.property,
        "tier": opts.tier,
        "seed": opts.seed,
        "level": e.level,
        "coverage": coverage,
        "assumptions": e.assumptions,
        "wall_s": (wall * 1000.0).round() / 1000.0,
        "violations": e.violations,
    });
    let dir = match std::env::var("VERIF_EVIDENCE_DIR") {
        Ok(d) => std::path::PathBuf::from(d),
        Err(_) => verif_dir().join("evidence"),
    };
    let _ = std::fs::create_dir_all(&dir);
    let path = dir.join(format!("{}.json", e.property));
    std::fs::write(&path, serde_json::to_string_pretty(&v).unwrap() + "\n").expect("write evidence");
}

#[derive(Clone, Debug)]
pub struct Known {
    pub property: String,
    /// substring that must occur in the violation's signature
    pub signature: String,
    pub what: String,
}

pub fn load_known() -> Vec<Known> {
    let path = verif_dir().join("known_findings.json");
    let text = match std::fs::read_to_string(&path) {
        Ok(t) => t,
        Err(_) => return vec![],
    };
    let v: Value = match serde_json::from_str(&text) {
        Ok(v) => v,
        Err(e) => {
            eprintln!("harness error: known_findings.json does not parse: {}", e);
            std::process::exit(2);
        }
    };
    let mut out = Vec::new();
    if let Some(a) = v.get("known").and_then(|k| k.as_array()) {
        for k in a {
            out.push(Known {
                property: k["property"].as_str().unwrap_or("").to_string(),
                signature: k["signature"].as_str().unwrap_or("").to_string(),
                what: k["what"].as_str().unwrap_or("").to_string(),
            });
        }
    }
    out
}

/// A reported problem: the signature decides whether it is a listed known finding.
#[derive(Clone, Debug)]
pub struct Finding {
    pub property: String,
    pub signature: String,
    pub detail: String,
    pub replay: Value,
}

/// Print KNOWN-FINDING / VIOLATION lines, write replay files, return the process exit code.
thread_local! {
    /// signatures of the known findings the last `report` call matched (for the evidence file)
    pub static KNOWN_SEEN: std::cell::RefCell<Vec<String>> = const { std::cell::RefCell::new(Vec::new()) };
}

pub fn report(property: &str, findings: &[Finding]) -> (i32, usize) {
    let known = load_known();
    let mut seen_known: Vec<String> = Vec::new();
    let mut new = 0usize;
    let dir = verif_dir().join("replays").join(property);
    for f in findings {
        if let Some(k) = known.iter().find(|k| k.property == property && !k.signature.is_empty() && f.signature.contains(&k.signature)) {
            if !seen_known.contains(&k.signature) {
                seen_known.push(k.signature.clone());
                println!("KNOWN-FINDING: property={} {}", property, k.what);
                KNOWN_SEEN.with(|s| s.borrow_mut().push(k.signature.clone()));
            }
            continue;
        }
        new += 1;
        if new > 8 {
            continue;
        }
        let _ = std::fs::create_dir_all(&dir);
        let mut h = 0xcbf2_9ce4_8422_2325u64;
        crate::plan::fnv(&mut h, f.signature.as_bytes());
        crate::plan::fnv(&mut h, f.detail.as_bytes());
        let path = dir.join(format!("{:016x}.json", h));
        let mut body = f.replay.clone();
        body["property"] = json!(property);
        body["signature"] = json!(f.signature);
        body["detail"] = json!(f.detail);
        std::fs::write(&path, serde_json::to_string_pretty(&body).unwrap() + "\n").expect("write replay");
        println!("violation: {} :: {}", f.signature, f.detail);
        println!("VIOLATION property={} replay={}", property, path.display());
    }
    (if new > 0 { 1 } else { 0 }, new)
}
