//! Worker threads: real OS threads (so every worker has chrono's real `thread_local!` cache)
//! that install the run's world and execute one conversion command at a time.

use std::cell::RefCell;
use std::panic::{self, AssertUnwindSafe};
use std::sync::mpsc::{self, Receiver, RecvTimeoutError, Sender};
use std::sync::{Arc, Once};
use std::thread;
use std::time::Duration;

use chrono::{DateTime, Local, MappedLocalTime, NaiveDateTime, TimeZone, Utc};
use serde::{Deserialize, Serialize};

use crate::world::SimWorld;

/// The public entry points a conversion can go through (they all funnel into `inner::offset`).
#[derive(Clone, Copy, Debug, PartialEq, Eq, Hash, Serialize, Deserialize)]
pub enum Api {
    OffsetFromUtc,
    FromUtc,
    TimestampOpt,
    WithTimezone,
    OffsetFromLocal,
    FromLocal,
    AndLocalTimezone,
    WithYmdHms,
    /// `from_utc_datetime` of the instant plus half a second (offsets are per whole second)
    FromUtcFrac,
    /// `from_local_datetime` of the wall-clock time plus half a second
    FromLocalFrac,
}

pub const UTC_APIS: [Api; 5] =
    [Api::OffsetFromUtc, Api::FromUtc, Api::TimestampOpt, Api::WithTimezone, Api::FromUtcFrac];
pub const LOCAL_APIS: [Api; 5] =
    [Api::OffsetFromLocal, Api::FromLocal, Api::AndLocalTimezone, Api::WithYmdHms, Api::FromLocalFrac];

impl Api {
    pub fn is_local(self) -> bool {
        matches!(
            self,
            Api::OffsetFromLocal | Api::FromLocal | Api::AndLocalTimezone | Api::WithYmdHms | Api::FromLocalFrac
        )
    }
}

/// Normalised result of a conversion: UTC offsets in seconds.
#[derive(Clone, Debug, PartialEq, Eq, Hash, Serialize, Deserialize)]
pub enum Res {
    Single(i32),
    Ambiguous(i32, i32),
    None,
    /// the call panicked (message, location)
    Panic(String),
    /// the result is internally inconsistent (instant or wall clock not preserved)
    Glue(String),
    /// the oracle's own lookup failed (accessor returned Err)
    Err(String),
}

thread_local! {
    static LAST_PANIC: RefCell<Option<String>> = const { RefCell::new(None) };
}

static HOOK: Once = Once::new();

/// Silence panic output and remember message + location for the catching thread.
pub fn install_panic_hook() {
    HOOK.call_once(|| {
        panic::set_hook(Box::new(|info| {
            let msg = if let Some(s) = info.payload().downcast_ref::<&str>() {
                s.to_string()
            } else if let Some(s) = info.payload().downcast_ref::<String>() {
                s.clone()
            } else {
                "<non-string panic>".to_string()
            };
            let loc = info.location().map(|l| format!("{}:{}", l.file(), l.line())).unwrap_or_default();
            if std::env::var_os("SIM_PANIC_TRACE").is_some() {
                eprintln!("panic: {} @ {}", msg, loc);
            }
            let _ = LAST_PANIC.try_with(|p| *p.borrow_mut() = Some(format!("{} @ {}", msg, loc)));
        }));
    });
}

pub fn take_panic() -> String {
    LAST_PANIC.with(|p| p.borrow_mut().take()).unwrap_or_else(|| "<panic>".to_string())
}

/// Run `f`, turning a panic into its message.
pub fn guarded<T>(f: impl FnOnce() -> T) -> Result<T, String> {
    match panic::catch_unwind(AssertUnwindSafe(f)) {
        Ok(v) => Ok(v),
        Err(_) => Err(take_panic()),
    }
}

pub fn naive(secs: i64) -> Option<NaiveDateTime> {
    DateTime::<Utc>::from_timestamp(secs, 0).map(|d| d.naive_utc())
}

/// The helper views of a result must agree with its variant: `earliest()`, `latest()`,
/// `single()`.
fn helpers_agree<T: Clone + PartialEq>(r: &MappedLocalTime<T>) -> Option<String> {
    let (e, l, s) = (r.clone().earliest(), r.clone().latest(), r.clone().single());
    let ok = match r {
        MappedLocalTime::Single(x) => e.as_ref() == Some(x) && l.as_ref() == Some(x) && s.as_ref() == Some(x),
        MappedLocalTime::Ambiguous(a, b) => e.as_ref() == Some(a) && l.as_ref() == Some(b) && s.is_none(),
        MappedLocalTime::None => e.is_none() && l.is_none() && s.is_none(),
    };
    if ok {
        None
    } else {
        Some("earliest() / latest() / single() disagree with the variant of the result".to_string())
    }
}

fn map_dt(r: MappedLocalTime<DateTime<Local>>, l: NaiveDateTime) -> Res {
    if let Some(g) = helpers_agree(&r) {
        return Res::Glue(g);
    }
    match r {
        MappedLocalTime::Single(d) => {
            if d.naive_local() != l {
                return Res::Glue(format!("naive_local {} != {}", d.naive_local(), l));
            }
            Res::Single(d.offset().local_minus_utc())
        }
        MappedLocalTime::Ambiguous(a, b) => {
            if a.naive_local() != l || b.naive_local() != l {
                return Res::Glue(format!("naive_local {} / {} != {}", a.naive_local(), b.naive_local(), l));
            }
            Res::Ambiguous(a.offset().local_minus_utc(), b.offset().local_minus_utc())
        }
        MappedLocalTime::None => Res::None,
    }
}

/// Execute one conversion through chrono's public API. `t` is a Unix time (instant APIs) or a
/// wall-clock second count (wall-clock APIs).
pub fn convert(api: Api, t: i64) -> Res {
    let n = match naive(t) {
        Some(n) => n,
        None => return Res::Err("probe out of NaiveDateTime range".into()),
    };
    match api {
        Api::OffsetFromUtc => Res::Single(Local.offset_from_utc_datetime(&n).local_minus_utc()),
        Api::FromUtc => {
            let d = Local.from_utc_datetime(&n);
            if d.naive_utc() != n {
                return Res::Glue(format!("naive_utc {} != {}", d.naive_utc(), n));
            }
            Res::Single(d.offset().local_minus_utc())
        }
        Api::TimestampOpt => match Local.timestamp_opt(t, 0) {
            MappedLocalTime::Single(d) => {
                if d.timestamp() != t {
                    return Res::Glue(format!("timestamp {} != {}", d.timestamp(), t));
                }
                Res::Single(d.offset().local_minus_utc())
            }
            _ => Res::Glue("timestamp_opt not Single".into()),
        },
        Api::WithTimezone => {
            let d = Utc.from_utc_datetime(&n).with_timezone(&Local);
            if d.naive_utc() != n {
                return Res::Glue(format!("naive_utc {} != {}", d.naive_utc(), n));
            }
            Res::Single(d.offset().local_minus_utc())
        }
        Api::FromUtcFrac => {
            let n = n + chrono::TimeDelta::milliseconds(500);
            let d = Local.from_utc_datetime(&n);
            if d.naive_utc() != n {
                return Res::Glue(format!("naive_utc {} != {}", d.naive_utc(), n));
            }
            Res::Single(d.offset().local_minus_utc())
        }
        Api::FromLocalFrac => {
            let n = n + chrono::TimeDelta::milliseconds(500);
            map_dt(Local.from_local_datetime(&n), n)
        }
        Api::OffsetFromLocal => match {
            let r = Local.offset_from_local_datetime(&n);
            if let Some(g) = helpers_agree(&r) {
                return Res::Glue(g);
            }
            r
        } {
            MappedLocalTime::Single(a) => Res::Single(a.local_minus_utc()),
            MappedLocalTime::Ambiguous(a, b) => Res::Ambiguous(a.local_minus_utc(), b.local_minus_utc()),
            MappedLocalTime::None => Res::None,
        },
        Api::FromLocal => map_dt(Local.from_local_datetime(&n), n),
        Api::AndLocalTimezone => map_dt(n.and_local_timezone(Local), n),
        Api::WithYmdHms => {
            use chrono::{Datelike, Timelike};
            map_dt(
                Local.with_ymd_and_hms(n.year(), n.month(), n.day(), n.hour(), n.minute(), n.second()),
                n,
            )
        }
    }
}

enum Cmd {
    Convert(Api, i64),
    Batch(Vec<(Api, i64)>),
}

enum Reply {
    One(Res),
    Many(Vec<Res>),
}

pub struct Worker {
    tx: Option<Sender<Cmd>>,
    rx: Receiver<Reply>,
    handle: Option<thread::JoinHandle<()>>,
    pub hung: bool,
}

pub const WATCHDOG: Duration = Duration::from_secs(20);

impl Worker {
    /// Spawn a fresh OS thread (fresh `thread_local!` cache) living in `world`.
    pub fn spawn(world: &SimWorld) -> Worker {
        let (tx, crx) = mpsc::channel::<Cmd>();
        let (rtx, rx) = mpsc::channel::<Reply>();
        let w: Arc<dyn chrono::__verif::World> = Arc::new(world.clone());
        let handle = thread::Builder::new()
            .stack_size(512 * 1024)
            .spawn(move || {
                chrono::__verif::install(Some(w));
                while let Ok(cmd) = crx.recv() {
                    let reply = match cmd {
                        Cmd::Convert(api, t) => Reply::One(match guarded(|| convert(api, t)) {
                            Ok(r) => r,
                            Err(p) => Res::Panic(p),
                        }),
                        Cmd::Batch(v) => Reply::Many(
                            v.into_iter()
                                .map(|(api, t)| match guarded(|| convert(api, t)) {
                                    Ok(r) => r,
                                    Err(p) => Res::Panic(p),
                                })
                                .collect(),
                        ),
                    };
                    if rtx.send(reply).is_err() {
                        break;
                    }
                }
                chrono::__verif::install(None);
            })
            .expect("spawn worker thread");
        Worker { tx: Some(tx), rx, handle: Some(handle), hung: false }
    }

    /// One conversion; `Err` = the worker did not answer within the watchdog (a real hang).
    pub fn convert(&mut self, api: Api, t: i64) -> Result<Res, String> {
        if self.hung {
            return Err("worker hung earlier".into());
        }
        self.tx.as_ref().unwrap().send(Cmd::Convert(api, t)).map_err(|_| "worker gone".to_string())?;
        match self.rx.recv_timeout(WATCHDOG) {
            Ok(Reply::One(r)) => Ok(r),
            Ok(_) => Err("protocol".into()),
            Err(RecvTimeoutError::Timeout) => {
                self.hung = true;
                Err(format!("no answer within {:?} (hang)", WATCHDOG))
            }
            Err(RecvTimeoutError::Disconnected) => Err("worker died".into()),
        }
    }

    /// Many conversions inside one conversion context (no admin events in between).
    pub fn batch(&mut self, v: Vec<(Api, i64)>) -> Result<Vec<Res>, String> {
        if self.hung {
            return Err("worker hung earlier".into());
        }
        self.tx.as_ref().unwrap().send(Cmd::Batch(v)).map_err(|_| "worker gone".to_string())?;
        match self.rx.recv_timeout(WATCHDOG * 3) {
            Ok(Reply::Many(r)) => Ok(r),
            Ok(_) => Err("protocol".into()),
            Err(RecvTimeoutError::Timeout) => {
                self.hung = true;
                Err("no answer (hang)".into())
            }
            Err(RecvTimeoutError::Disconnected) => Err("worker died".into()),
        }
    }
}

impl Drop for Worker {
    fn drop(&mut self) {
        self.tx.take();
        if !self.hung {
            if let Some(h) = self.handle.take() {
                let _ = h.join();
            }
        }
    }
}
