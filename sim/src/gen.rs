//! Seeded generators: zone models, POSIX rules, and the options of the TZif writer.

use crate::model::{AltRule, Day, LType, Rule, ZoneModel};
use crate::rng::Rng;
use crate::tzif::TzifOpts;

pub const DAY: i64 = 86_400;

pub fn gen_abbr(rng: &mut Rng, alpha_only: bool) -> String {
    let len = match rng.below(10) {
        0..=5 => 3,
        6 | 7 => 4,
        8 => 5 + rng.usize(2),
        _ => 7,
    };
    let alpha = b"ABCDEFGHIJKLMNOPQRSTUVWXYZabcdefghijklmnopqrstuvwxyz";
    let all = b"ABCDEFGHIJKLMNOPQRSTUVWXYZabcdefghijklmnopqrstuvwxyz0123456789+-";
    let numeric = !alpha_only && rng.chance(1, 4);
    if numeric {
        // the "+03" / "-0330" style of tzdb
        let sign = if rng.chance(1, 2) { '+' } else { '-' };
        let h = rng.below(15);
        return if len <= 3 { format!("{}{:02}", sign, h) } else { format!("{}{:02}{:02}", sign, h, rng.below(4) * 15) };
    }
    let set: &[u8] = if alpha_only || rng.chance(2, 3) { alpha } else { all };
    (0..len).map(|_| *rng.pick(set) as char).collect()
}

/// A UTC offset: mostly round, sometimes to the second. `limit` bounds the magnitude.
pub fn gen_utoff(rng: &mut Rng, limit: i32) -> i32 {
    let v = match rng.below(10) {
        0..=5 => rng.range(-14 * 4, 14 * 4) as i32 * 900,
        6 | 7 => rng.range(-14 * 3600, 14 * 3600) as i32,
        8 => rng.range(-(limit as i64), limit as i64) as i32,
        _ => *rng.pick(&[0, 1, -1, 3600, -3600, limit, -limit, limit - 1, 1 - limit]),
    };
    v.clamp(-limit, limit)
}

fn gen_day(rng: &mut Rng, month_hint: Option<u8>) -> Day {
    match rng.below(10) {
        0..=6 => Day::M {
            m: month_hint.unwrap_or_else(|| 1 + rng.below(12) as u8),
            w: 1 + rng.below(5) as u8,
            d: rng.below(7) as u8,
        },
        7 if rng.chance(1, 4) => Day::J1(*rng.pick(&[2u16, 58, 59, 60, 61, 62, 364])),
        8 if rng.chance(1, 4) => Day::J0(*rng.pick(&[1u16, 57, 58, 59, 60, 61, 363, 364])),
        7 => Day::J1(match month_hint {
            Some(m) => ((m as u16 - 1) * 30 + 1 + rng.below(28) as u16).clamp(1, 365),
            None => 1 + rng.below(365) as u16,
        }),
        _ => Day::J0(match month_hint {
            Some(m) => ((m as u16 - 1) * 30 + rng.below(28) as u16).min(365),
            None => rng.below(366) as u16,
        }),
    }
}

fn gen_rule_time(rng: &mut Rng, extended: bool) -> i32 {
    match rng.below(10) {
        0..=3 => 7200,
        4 => 0,
        5 => *rng.pick(&[3600, 10800, 14400, 86400, 82800]),
        6 | 7 => rng.range(0, 24) as i32 * 3600 + rng.below(4) as i32 * 900,
        8 => rng.range(0, 86_400) as i32,
        _ => {
            if extended {
                rng.range(-167 * 3600 - 3599, 167 * 3600 + 3599) as i32
            } else {
                rng.range(0, 24 * 3600 + 3599) as i32
            }
        }
    }
}

/// Random POSIX rule. `in_class`: only rules C05 quantifies over (transitions more than a day
/// inside the year, seasons >= 14 days). `limit` bounds |utoff|.
pub fn gen_rule(rng: &mut Rng, in_class: bool, extended: bool, limit: i32) -> Rule {
    if rng.chance(1, 6) {
        return Rule::Fixed(LType { utoff: gen_utoff(rng, limit), dst: false, abbr: gen_abbr(rng, false) });
    }
    loop {
        let std_off = gen_utoff(rng, limit);
        let delta = match rng.below(10) {
            0..=5 => 3600,
            6 => 1800,
            7 => 7200,
            8 if rng.chance(1, 4) => 0, // "DST" that changes only the name and the flag
            8 => -3600,                // negative DST (Ireland style)
            _ => rng.range(-7200, 10_800) as i32,
        };
        let dst_off = (std_off as i64 + delta as i64).clamp(-(limit as i64), limit as i64) as i32;
        // both hemispheres and same-month pairs
        let (ms, me) = match rng.below(10) {
            0..=3 => (2 + rng.below(4) as u8, 8 + rng.below(4) as u8), // northern
            4..=7 => (8 + rng.below(4) as u8, 2 + rng.below(4) as u8), // southern
            8 => {
                let m = 2 + rng.below(10) as u8;
                (m, m)
            }
            _ => (1 + rng.below(12) as u8, 1 + rng.below(12) as u8),
        };
        let hint = rng.chance(9, 10);
        let short = rng.chance(1, 12);
        let a = AltRule {
            std: LType { utoff: std_off, dst: false, abbr: gen_abbr(rng, false) },
            dst: LType { utoff: dst_off, dst: true, abbr: gen_abbr(rng, false) },
            start: gen_day(rng, if hint { Some(ms) } else { None }),
            start_time: gen_rule_time(rng, extended),
            end: gen_day(rng, if hint { Some(me) } else { None }),
            end_time: gen_rule_time(rng, extended),
        };
        // a DST season of a few days between two numbered days
        let a = if short {
            let n = 5 + rng.below(350) as u16;
            let len = 3 + rng.below(6) as u16;
            let (x, y) = if rng.chance(1, 2) { (Day::J1(n), Day::J1((n + len).min(364))) } else { (Day::J0(n), Day::J0((n + len).min(363))) };
            if rng.chance(1, 2) {
                AltRule { start: x, end: y, ..a }
            } else {
                AltRule { start: y, end: x, ..a }
            }
        } else {
            a
        };
        // seasons of a few days are unambiguous only when both days are given by number (the
        // order of two weekday-based days less than a week apart flips from year to year)
        let numbered = |d: &Day| !matches!(d, Day::M { .. });
        let min_season = if numbered(&a.start) && numbered(&a.end) { 3 * DAY } else { 14 * DAY };
        if !in_class || a.in_class(min_season) {
            return Rule::Alt(a);
        }
    }
}

#[derive(Clone, Debug)]
pub struct ZoneGenCfg {
    /// bound on |utoff|
    pub limit: i32,
    /// allow leap-second records (C16 only)
    pub leaps: bool,
    /// allow 64-bit times far outside the usual range (C16 only)
    pub extreme_times: bool,
    /// maximum transition count
    pub max_trans: usize,
}

pub struct GenZone {
    pub model: ZoneModel,
    pub opts: TzifOpts,
    /// transitions may be closer together than the offset changes: wall-clock lookups of such
    /// a zone have no simple specification and are not judged
    pub tight: bool,
}

/// Random zone model plus writer options. The model satisfies everything chrono documents as
/// its restrictions (3-7 character abbreviations, footer consistent with the last transition).
pub fn gen_zone(rng: &mut Rng, cfg: &ZoneGenCfg) -> GenZone {
    let version = match rng.below(10) {
        0 | 1 => 1u8,
        2..=6 => 2,
        _ => 3,
    };
    // now and then a file near the format's limits: up to 240 local time types (the type index
    // is one byte) sharing a dozen abbreviations, or a few thousand transitions
    let many_types = rng.chance(1, 60);
    let many_trans = rng.chance(1, 150);
    let abbr_pool: Vec<String> = (0..12).map(|_| gen_abbr(rng, false)).collect();
    let ntypes = if many_types {
        60 + rng.usize(181)
    } else {
        match rng.below(10) {
            0 => 1,
            1..=4 => 2 + rng.usize(2),
            5..=8 => 3 + rng.usize(5),
            _ => 8 + rng.usize(12),
        }
    };
    // "close" zones: all offsets inside a narrow band and transitions only a little further
    // apart than the band is wide (hours to a few days) - still no two wall-clock windows overlap
    let close = rng.chance(3, 20);
    let band: i32 = *rng.pick(&[1, 900, 1800, 3600, 3600, 7200]);
    let close_base = gen_utoff(rng, cfg.limit - band);
    let mut types: Vec<LType> = Vec::new();
    for _ in 0..ntypes {
        let t = if !types.is_empty() && rng.chance(1, 4) {
            // same offset, different flag/abbreviation: offset-preserving transitions
            let base = rng.pick(&types).clone();
            LType { utoff: base.utoff, dst: rng.chance(1, 2), abbr: gen_abbr(rng, false) }
        } else if !types.is_empty() && rng.chance(1, 3) {
            let base = rng.pick(&types).clone();
            let d = *rng.pick(&[3600, -3600, 1800, 7200, 1, -1, 900]);
            LType {
                utoff: (base.utoff + d).clamp(-cfg.limit, cfg.limit),
                dst: d > 0,
                abbr: gen_abbr(rng, false),
            }
        } else {
            LType { utoff: gen_utoff(rng, cfg.limit), dst: rng.chance(1, 3), abbr: gen_abbr(rng, false) }
        };
        let t = if close {
            let steps = [0, band, band / 2, band - band / 4];
            LType { utoff: close_base + *rng.pick(&steps), ..t }
        } else {
            t
        };
        let t = if many_types { LType { abbr: rng.pick(&abbr_pool).clone(), ..t } } else { t };
        types.push(t);
    }

    let mut rule = if version >= 2 && !close && rng.chance(3, 5) {
        Some(gen_rule(rng, true, version == 3, cfg.limit))
    } else {
        None
    };

    let ntrans = match rng.below(12) {
        0 | 1 => 0,
        2 => 1,
        3 => 2,
        4..=8 => 3 + rng.usize(12),
        9 | 10 => 15 + rng.usize(60),
        _ => 75 + rng.usize(cfg.max_trans.saturating_sub(75).max(1)),
    }
    .min(cfg.max_trans);
    let ntrans = if many_trans { 1000 + rng.usize(5000) } else { ntrans };

    let tight = ntrans >= 2 && !close && rng.chance(1, 20);
    let v1 = version == 1;
    // start somewhere between 1850 and 2030, or (64-bit only) far out
    let mut t: i64 = if v1 {
        rng.range(i32::MIN as i64, 1_000_000_000)
    } else if cfg.extreme_times && rng.chance(1, 8) {
        *rng.pick(&[i64::MIN, i64::MIN + 1, -(1i64 << 59), -(1i64 << 59) - 1, i64::MIN + 100_000, -(1i64 << 40)])
    } else if rng.chance(1, 6) {
        -(1i64 << 59) // zic's "big bang" first transition
    } else {
        rng.range(-3_786_825_600, 1_900_000_000)
    };
    let mut trans: Vec<(i64, usize)> = Vec::new();
    let mut cur = 0usize;
    for k in 0..ntrans {
        if k > 0 {
            let step = if tight {
                rng.range(1, 7200)
            } else if close {
                let b = band as i64;
                match rng.below(10) {
                    0..=4 => rng.range(b + 2, b + 7200),
                    5..=7 => rng.range(DAY - 3600, DAY + 3600),
                    _ => rng.range(b + 2, 3 * DAY),
                }
            } else {
                match rng.below(10) {
                    0..=5 => rng.range(150 * DAY, 220 * DAY),
                    6 | 7 => rng.range(3 * DAY, 40 * DAY),
                    8 => rng.range(1, 40) * 365 * DAY,
                    _ => 3 * DAY + rng.range(0, 3600),
                }
            };
            let base = if t < -(1i64 << 58) { rng.range(-3_786_825_600, -1_000_000_000) } else { t };
            t = match base.checked_add(step) {
                Some(x) => x,
                None => break,
            };
        }
        if v1 && t > i32::MAX as i64 {
            break;
        }
        let mut next = rng.usize(types.len());
        if next == cur && types.len() > 1 && rng.chance(3, 4) {
            next = (next + 1) % types.len();
        }
        trans.push((t, next));
        cur = next;
    }
    if cfg.extreme_times && !v1 && !trans.is_empty() && rng.chance(1, 8) {
        // a last transition near the top of the 64-bit range
        let top = *rng.pick(&[i64::MAX, i64::MAX - 1, i64::MAX - 50_000, 1i64 << 59, (1i64 << 59) + 1, 1i64 << 62]);
        if top > trans.last().unwrap().0 {
            let k = rng.usize(types.len());
            trans.push((top, k));
        }
    }

    // footer must be consistent with the last transition: the type in force from the last
    // transition on is the one the rule prescribes at that instant
    if let (Some(r), Some(&(last_t, _))) = (&rule, trans.last()) {
        if last_t > 1i64 << 40 || last_t < -(1i64 << 40) {
            // keep rule evaluation inside the calendar range chrono supports
            rule = None;
        } else {
            // keep the last table transition at least three days away from every rule
            // transition, like every other pair of neighbouring transitions
            let mut last_t = last_t;
            if let (Rule::Alt(a), false) = (r, tight) {
                for _ in 0..400 {
                    let y = crate::model::year_of(last_t);
                    if !a.events(y - 1, y + 1).iter().any(|&(e, _)| (e - last_t).abs() < 3 * DAY) {
                        break;
                    }
                    last_t += 4 * DAY;
                }
                trans.last_mut().unwrap().0 = last_t;
            }
            let want = r.at(last_t).clone();
            let k = match types.iter().position(|t| *t == want) {
                Some(k) => k,
                None => {
                    types.push(want);
                    types.len() - 1
                }
            };
            trans.last_mut().unwrap().1 = k;
            // make the other rule type available too (as real files have)
            if let Rule::Alt(a) = r {
                for t in [&a.std, &a.dst] {
                    if !types.contains(t) {
                        types.push(t.clone());
                    }
                }
            }
        }
    }

    let mut leaps = Vec::new();
    if cfg.leaps && rng.chance(1, 5) {
        let many = rng.chance(1, 4);
        let n = 1 + rng.usize(if many { 30 } else { 4 });
        let mut lt = rng.range(0, 400_000_000);
        let mut corr = if rng.chance(9, 10) { 1 } else { -1 };
        for _ in 0..n {
            if v1 && lt > i32::MAX as i64 {
                break;
            }
            leaps.push((lt, corr));
            lt += rng.range(28 * DAY - 1, 900 * DAY);
            corr += if rng.chance(9, 10) { 1 } else { -1 };
        }
    }

    let nt = types.len();
    let (isstd, isut) = match rng.below(4) {
        0 | 1 => (vec![], vec![]),
        2 => ((0..nt).map(|_| rng.below(2) as u8).collect(), vec![]),
        _ => {
            let isstd: Vec<u8> = (0..nt).map(|_| rng.below(2) as u8).collect();
            // isut = 1 requires isstd = 1
            let isut = isstd.iter().map(|&s| if s == 1 { rng.below(2) as u8 } else { 0 }).collect();
            (isstd, isut)
        }
    };

    let footer = match &rule {
        Some(r) => crate::tzif::rule_string(r, rng),
        None => String::new(),
    };
    let model = ZoneModel { types, trans, leaps, rule };
    let opts = TzifOpts {
        version,
        fat_v1: rng.chance(1, 2),
        isstd,
        isut,
        share_suffix: rng.chance(1, 2),
        footer,
    };
    GenZone { model, opts, tight }
}

/// A rule with a transition at or across a year boundary (day 0, 1, 364, 365, `M1.1.d`,
/// `M12.5.d`, times that push the transition into the neighbouring year): outside the class C05
/// quantifies its wall-clock clauses over, but the offset at an *instant* is still prescribed
/// unambiguously as long as every season lasts at least two weeks.
pub fn gen_edge_rule(rng: &mut Rng, extended: bool, limit: i32) -> Rule {
    loop {
        let std_off = gen_utoff(rng, limit);
        let delta = *rng.pick(&[3600, 3600, 1800, 7200, -3600]);
        let dst_off = (std_off as i64 + delta as i64).clamp(-(limit as i64), limit as i64) as i32;
        let edge_day = |rng: &mut Rng| match rng.below(8) {
            0 => Day::J0(*rng.pick(&[0u16, 1, 364, 365])),
            1 => Day::J1(*rng.pick(&[1u16, 2, 364, 365])),
            2 => Day::M { m: 1, w: 1, d: rng.below(7) as u8 },
            3 => Day::M { m: 12, w: 5, d: rng.below(7) as u8 },
            4 => Day::M { m: 12, w: 4 + rng.below(2) as u8, d: rng.below(7) as u8 },
            5 => Day::J0(rng.below(5) as u16),
            6 => Day::J1(361 + rng.below(5) as u16),
            _ => Day::M { m: 1, w: 1 + rng.below(2) as u8, d: rng.below(7) as u8 },
        };
        let other_day = |rng: &mut Rng| {
            let m = 4 + rng.below(6) as u8;
            gen_day(rng, Some(m))
        };
        let (start, end) = if rng.chance(1, 2) { (edge_day(rng), other_day(rng)) } else { (other_day(rng), edge_day(rng)) };
        let a = AltRule {
            std: LType { utoff: std_off, dst: false, abbr: gen_abbr(rng, false) },
            dst: LType { utoff: dst_off, dst: true, abbr: gen_abbr(rng, false) },
            start,
            start_time: gen_rule_time(rng, extended),
            end,
            end_time: gen_rule_time(rng, extended),
        };
        if a.seasons_ok(14 * DAY) && !a.in_class(14 * DAY) {
            return Rule::Alt(a);
        }
    }
}
