//! Driver of the C18 check: batches per fault configuration, evidence, replay.

use std::collections::{BTreeMap, HashSet};
use std::time::Instant;

use serde::{Deserialize, Serialize};
use serde_json::{json, Value};

use crate::c18::{self, Config, SysZones};
use crate::oracle18::JudgeStats;
use crate::plan::{exec, fnv, log_hash, log_text, Outcome, Plan, Step};
use crate::runner::{report, write_evidence, Evidence, Finding, Opts};
use crate::world::{Ev, Seam, ZONEINFO_DIRS};

struct RunRes {
    violations: Vec<(String, String, usize)>, // class, detail, step
    r1_evals: u64,
    r1_disc: u64,
    r1_after_change: u64,
    relax_used: u64,
    q_excl: u64,
    ilv: u64,
    nontrivial: bool,
    steps: u64,
    convs: u64,
    sim_ns: u64,
    threads: u64,
    counters: BTreeMap<String, u64>,
    det_checked: bool,
    det_ok: bool,
    sample: Option<Value>,
}

fn step_text(s: &Step) -> String {
    match s {
        Step::Admin(a) => format!("{:?}", a),
        Step::Respawn(w) => format!("Respawn(W{})", w),
        Step::Conv(c) => {
            let mut t = format!("Convert(W{}, {:?}, t={})", c.worker, c.api, c.t);
            if !c.inject.is_empty() {
                t.push_str(&format!(" inject={:?}", c.inject));
            }
            if !c.faults.is_empty() {
                t.push_str(&format!(" faults={:?}", c.faults));
            }
            t
        }
    }
}

pub fn plan_summary(p: &Plan) -> Value {
    json!({
        "config": p.config,
        "run": p.run,
        "pool": p.pool.iter().map(|z| match &z.rule { Some(r) => format!("{} = {}", z.label, r), None => format!("{} ({} bytes)", z.label, z.bytes.len()) }).collect::<Vec<_>>(),
        "tz0": p.tz0,
        "system_zone": p.sys0,
        "files": p.files0.iter().map(|(f, k)| format!("{} -> {}", f, p.pool[*k].label)).collect::<Vec<_>>(),
        "steps": p.steps.iter().map(step_text).collect::<Vec<_>>(),
    })
}

fn abstract_hash(o: &Outcome) -> u64 {
    let mut h = 0xcbf2_9ce4_8422_2325u64;
    for e in &o.log {
        let s = match &e.ev {
            Ev::Admin { op, within } => match within {
                Some((w, _)) => format!("A:{}:in:W{}", op.kind(), w),
                None => format!("A:{}", op.kind()),
            },
            Ev::Seam { kind, .. } => format!("S:{}", kind.name()),
            Ev::Invoke { worker, conv } => {
                format!("I:W{}:{}", worker, if o.convs[*conv].api.is_local() { "L" } else { "U" })
            }
            Ev::Return { .. } => "R".to_string(),
        };
        fnv(&mut h, s.as_bytes());
        fnv(&mut h, b"|");
    }
    h
}

fn reach(o: &Outcome, c: &mut BTreeMap<String, u64>) {
    let mut bump = |k: String| *c.entry(k).or_insert(0) += 1;
    for cv in &o.convs {
        let has = |s: Seam| cv.seams.contains(&s);
        if cv.first_on_worker {
            bump("reach.first_load_on_fresh_thread".into());
        } else if cv.seams == [Seam::Now] {
            bump("reach.reuse_within_1s".into());
        } else if has(Seam::Env) && !has(Seam::Open) {
            bump("reach.revalidate_unchanged".into());
        } else if has(Seam::Env) && has(Seam::Open) {
            bump("reach.reload".into());
        }
        if has(Seam::Lstat) {
            bump("reach.lstat_etc_localtime".into());
        }
        if has(Seam::SysName) {
            bump("reach.fallback_to_system_zone_query".into());
        }
        for p in &cv.opened {
            for (k, d) in ZONEINFO_DIRS.iter().enumerate() {
                if p.starts_with(&format!("{}/", d)) && !p.ends_with("Sim/System") {
                    bump(format!("reach.probe_zoneinfo_dir_{}", k + 1));
                }
            }
        }
        for (seam, kind) in &cv.fired_inject {
            bump(format!("inject.{}.before_{}", kind, seam.name()));
        }
        for f in &cv.fired_faults {
            bump(format!("fault.{}", f));
        }
    }
    for e in &o.log {
        if let Ev::Admin { op, within: None } = &e.ev {
            bump(format!("admin.{}", op.kind()));
        }
    }
}

fn one_run(seed: u64, i: u64, cfg: Config, sys: &SysZones, det_every: u64) -> RunRes {
    let g = c18::gen_plan(seed, i, cfg, sys);
    let o = exec(&g.plan);
    let mut st = JudgeStats::default();
    let vs = c18::judge_plan(&g.plan, &o, &mut st);
    let mut counters = BTreeMap::new();
    reach(&o, &mut counters);
    let mut det_checked = false;
    let mut det_ok = true;
    if det_every > 0 && i % det_every == 0 {
        det_checked = true;
        let o2 = exec(&g.plan);
        det_ok = log_hash(&o) == log_hash(&o2);
    }
    RunRes {
        violations: vs.iter().map(|v| (c18::vclass(v), v.detail.clone(), v.step)).collect(),
        r1_evals: st.r1_evals,
        r1_disc: st.r1_discriminating,
        r1_after_change: st.r1_after_tz_change,
        relax_used: st.fault_relaxations_used,
        q_excl: st.q_exclusions,
        ilv: abstract_hash(&o),
        nontrivial: st.r1_after_tz_change > 0,
        steps: g.plan.steps.len() as u64,
        convs: o.convs.len() as u64,
        sim_ns: o.sim_ns,
        threads: o.threads_spawned as u64,
        counters,
        det_checked,
        det_ok,
        sample: if i < 2 { Some(plan_summary(&g.plan)) } else { None },
    }
}

pub fn budgets(tier: &str, scale: f64) -> Vec<(Config, u64)> {
    let base: [(Config, u64); 5] = if tier == "thorough" {
        [(Config::F0, 6_000_000), (Config::F1, 2_500_000), (Config::F2, 1_000_000), (Config::F3, 1_500_000), (Config::F4, 1_000_000)]
    } else {
        [(Config::F0, 60_000), (Config::F1, 25_000), (Config::F2, 10_000), (Config::F3, 15_000), (Config::F4, 10_000)]
    };
    base.iter().map(|&(c, n)| (c, ((n as f64 * scale) as u64).max(1))).collect()
}

pub fn replay_value(plan: &Plan, class: &str, original_steps: usize, execs: usize) -> Value {
    let o = exec(plan);
    json!({
        "kind": "c18-plan",
        "class": class,
        "original_steps": original_steps,
        "minimise_executions": execs,
        "plan": plan,
        "event_log": log_text(&o),
    })
}

#[derive(Serialize, Deserialize, Default)]
pub struct Shard18 {
    runs: u64,
    r1_evals: u64,
    r1_disc: u64,
    r1_after: u64,
    relax: u64,
    q_excl: u64,
    steps: u64,
    convs: u64,
    sim_ns: String,
    threads: u64,
    counters: BTreeMap<String, u64>,
    det_checked: u64,
    det_failed: Vec<u64>,
    n_violations: u64,
    /// (run, class, detail) of the first violations
    violations: Vec<(u64, String, String)>,
    samples: Vec<Value>,
}

/// Child process: runs `from..to` of one configuration, results into `<out>.json` + side files.
pub fn shard(cfg: Config, seed: u64, from: u64, to: u64, out: &str) -> i32 {
    let sys = SysZones::load();
    let mut sh = Shard18::default();
    let mut distinct: HashSet<u64> = HashSet::new();
    let mut distinct_nt: HashSet<u64> = HashSet::new();
    let mut sim_ns: u128 = 0;
    for i in from..to {
        let r = one_run(seed, i, cfg, &sys, 97);
        sh.runs += 1;
        sh.r1_evals += r.r1_evals;
        sh.r1_disc += r.r1_disc;
        sh.r1_after += r.r1_after_change;
        sh.relax += r.relax_used;
        sh.q_excl += r.q_excl;
        sh.steps += r.steps;
        sh.convs += r.convs;
        sim_ns += r.sim_ns as u128;
        sh.threads += r.threads;
        for (k, v) in &r.counters {
            *sh.counters.entry(k.clone()).or_insert(0) += v;
        }
        distinct.insert(r.ilv);
        if r.nontrivial {
            distinct_nt.insert(r.ilv);
        }
        if r.det_checked {
            sh.det_checked += 1;
            if !r.det_ok {
                sh.det_failed.push(i);
            }
        }
        if let Some(s) = r.sample {
            sh.samples.push(s);
        }
        for (class, detail, _) in r.violations {
            sh.n_violations += 1;
            if sh.violations.len() < 64 {
                sh.violations.push((i, class, detail));
            }
        }
    }
    sh.sim_ns = sim_ns.to_string();
    std::fs::write(format!("{}.json", out), serde_json::to_string(&sh).unwrap()).expect("write shard");
    crate::runner::write_hashes(std::path::Path::new(&format!("{}.ilv", out)), &distinct);
    crate::runner::write_hashes(std::path::Path::new(&format!("{}.ilvnt", out)), &distinct_nt);
    0
}

pub fn run(opts: &Opts, only: Option<Config>) -> i32 {
    let start = Instant::now();
    let sys = SysZones::load();
    let mut findings: Vec<Finding> = Vec::new();
    let mut tot: BTreeMap<String, u64> = BTreeMap::new();
    let mut per_cfg = Vec::new();
    let mut distinct: HashSet<u64> = HashSet::new();
    let mut distinct_nontrivial: HashSet<u64> = HashSet::new();
    let mut samples: Vec<Value> = Vec::new();
    let mut evals = 0u64;
    let mut sim_ns_total: u128 = 0;
    let mut det_checked = 0u64;
    let mut classes_seen: Vec<String> = Vec::new();
    let mut nondet: Option<String> = None;
    for (cfg, n) in budgets(&opts.tier, opts.scale) {
        if let Some(o) = only {
            if o != cfg {
                continue;
            }
        }
        let t0 = Instant::now();
        let (dir, procs) = crate::runner::spawn_shards(
            &["C18".to_string(), cfg.name().to_string(), opts.seed.to_string()],
            n,
            opts.threads,
        );
        let mut c_evals = 0u64;
        let mut c_disc = 0u64;
        let mut c_after = 0u64;
        let mut c_viol = 0u64;
        for k in 0..procs {
            let text = std::fs::read_to_string(dir.join(format!("{}.json", k))).expect("read shard");
            let r: Shard18 = serde_json::from_str(&text).expect("parse shard");
            crate::runner::read_hashes(&dir.join(format!("{}.ilv", k)), &mut distinct);
            crate::runner::read_hashes(&dir.join(format!("{}.ilvnt", k)), &mut distinct_nontrivial);
            evals += r.runs;
            c_evals += r.r1_evals;
            c_disc += r.r1_disc;
            c_after += r.r1_after;
            sim_ns_total += r.sim_ns.parse::<u128>().unwrap_or(0);
            *tot.entry("steps".into()).or_insert(0) += r.steps;
            *tot.entry("conversions".into()).or_insert(0) += r.convs;
            *tot.entry("worker_threads_spawned".into()).or_insert(0) += r.threads;
            *tot.entry("fault_relaxations_used".into()).or_insert(0) += r.relax;
            *tot.entry("rule_q_exclusions".into()).or_insert(0) += r.q_excl;
            for (k, v) in &r.counters {
                *tot.entry(k.clone()).or_insert(0) += v;
            }
            det_checked += r.det_checked;
            if let Some(i) = r.det_failed.first() {
                if nondet.is_none() {
                    nondet = Some(format!("run {} of {} is not deterministic (event logs of two executions of the same plan differ)", i, cfg.name()));
                }
            }
            for s in r.samples {
                if samples.len() < 6 && samples.iter().filter(|x: &&Value| x["config"] == s["config"]).count() < 2 {
                    samples.push(s);
                }
            }
            c_viol += r.n_violations;
            for (i, class, detail) in &r.violations {
                if class == "harness" {
                    eprintln!("harness error in run {} of {}: {}", i, cfg.name(), detail);
                    return 2;
                }
                let key = format!("{}:{}", cfg.name(), class);
                if classes_seen.contains(&key) {
                    continue;
                }
                classes_seen.push(key);
                // minimise and file the first violation of each class
                let g = c18::gen_plan(opts.seed, *i, cfg, &sys);
                let (min, execs) = c18::minimise(&g.plan, class, 2000);
                let o = exec(&min);
                let mut st = JudgeStats::default();
                let vs = c18::judge_plan(&min, &o, &mut st);
                let d = vs.iter().find(|v| &c18::vclass(v) == class).map(|v| v.detail.clone()).unwrap_or(detail.clone());
                findings.push(Finding {
                    property: "C18".into(),
                    signature: format!("C18/{}/{}", cfg.name(), class),
                    detail: d,
                    replay: replay_value(&min, class, g.plan.steps.len(), execs),
                });
            }
        }
        let _ = std::fs::remove_dir_all(&dir);
        per_cfg.push(json!({
            "config": cfg.name(),
            "runs": n,
            "r1_evaluations": c_evals,
            "r1_discriminating": c_disc,
            "r1_discriminating_after_tz_change": c_after,
            "violations": c_viol,
            "wall_s": t0.elapsed().as_secs_f64(),
        }));
    }
    let (code, new) = report("C18", &findings);
    if let Some(n) = &nondet {
        // A plan executed twice in one process gave two different event logs. If the oracle also
        // found violations, the likeliest cause is state the code under test keeps across
        // threads (exactly what C18 forbids) and the violations stand; otherwise it is the
        // harness that is broken.
        if code == 0 {
            eprintln!("harness error: {}", n);
            return 2;
        }
        println!("note: {} - state surviving across simulated histories", n);
    }
    let wall = start.elapsed().as_secs_f64();
    let cov = json!({
        "evaluations": evals,
        "distinct_nontrivial": distinct_nontrivial.len(),
        "distinct_interleavings": distinct.len(),
        "rule": "one evaluation = one simulated history (5-40 steps: set/unset TZ, wait, replace/delete file, change system zone, convert on one of up to 4 freshly spawned OS threads; admin events and faults injected between the seam calls of a conversion) drawn from splitmix(VERIF_SEED, config, run). distinct = distinct hash of the abstract event sequence (actor x event kind x seam kind x which conversion an injected event landed in). non-trivial = the history contains at least one R1 evaluation that discriminates (a zone designated at another moment of the run would have answered differently) after TZ changed during the worker's life.",
        "samples": samples,
        "per_config": per_cfg,
        "runs_per_hour": (evals as f64 / wall * 3600.0) as u64,
        "simulated_seconds": (sim_ns_total / 1_000_000_000) as u64,
        "counters_fired": tot,
        "determinism_rechecks": det_checked,
        "system_zoneinfo_files_loaded": sys.zones.len(),
        "real_components": ["chrono::Local and TimeZone trait glue", "offset/local/unix.rs (Cache, Source, current_zone, fallback_timezone, thread_local TZ_INFO)", "offset/local/tz_info (parser, rule, timezone lookups, find_tz_file)", "std read_to_end, Path::join/is_absolute, DefaultHasher", "OS threads (one real thread_local cache per worker)"],
        "stubbed_components": ["TZ environment variable", "wall clock (discrete-event, ns)", "file system (path -> inode{bytes, mtime}; open handles pin content)", "iana_time_zone::get_timezone"],
    });
    write_evidence(
        opts,
        start,
        Evidence {
            property: "C18".into(),
            level: "exploration".into(),
            coverage: cov,
            assumptions: vec![
                "the simulated env/clock/fs/system-zone behave like the real ones for the calls chrono makes (selftest stub-fidelity compares a handful of scenarios against the real OS)".into(),
                "expected answers come from chrono's own reader and lookups via the accessor, so reader (C16) or lookup (C05) defects do not show here".into(),
                "worker threads never run concurrently (chrono shares no state between threads)".into(),
                "sampling: a clean batch is evidence, not proof".into(),
            ],
            violations: new,
        },
    );
    code
}

/// Re-execute a replay file; the violation must reproduce with an identical event log.
pub fn replay(v: &Value) -> i32 {
    let plan: Plan = match serde_json::from_value(v["plan"].clone()) {
        Ok(p) => p,
        Err(e) => {
            eprintln!("harness error: replay file has no valid plan: {}", e);
            return 2;
        }
    };
    let class = v["class"].as_str().unwrap_or("");
    let o = exec(&plan);
    let mut st = JudgeStats::default();
    let vs = c18::judge_plan(&plan, &o, &mut st);
    let log = log_text(&o);
    let stored: Vec<String> =
        v["event_log"].as_array().map(|a| a.iter().filter_map(|x| x.as_str().map(String::from)).collect()).unwrap_or_default();
    for l in &log {
        println!("{}", l);
    }
    let same_log = stored == log;
    match vs.iter().find(|x| c18::vclass(x) == class) {
        Some(x) => {
            println!("reproduced: {} :: {}", class, x.detail);
            println!("event log identical to the recorded one: {}", same_log);
            println!("VIOLATION property=C18 replay=<this file>");
            if same_log {
                1
            } else {
                2
            }
        }
        None => {
            println!("not reproduced (violations now: {:?})", vs.iter().map(c18::vclass).collect::<Vec<_>>());
            0
        }
    }
}
