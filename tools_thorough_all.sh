#!/bin/sh
# Run the thorough tier of every check in /verif against /repo, keep a copy of each evidence file
# under evidence/thorough/, then run the quick tier again so that evidence/<id>.json is what the
# registered quick commands write. Prints the exit code of every run. (/repo must not be edited
# while this runs.)
cd "$(dirname "$0")"
mkdir -p evidence/thorough
rc=0
for id in C05 C18 C16; do
  ./check $id --tier thorough > /tmp/thorough_$id.log 2>&1; e=$?
  echo "$id thorough exit=$e"; [ $e -ne 0 ] && { rc=1; grep -E '^(violation|VIOLATION|harness)' /tmp/thorough_$id.log | cut -c1-300; }
  grep '^KNOWN-FINDING' /tmp/thorough_$id.log | cut -c1-160
  cp evidence/$id.json evidence/thorough/$id.json
done
for id in C05 C16 C18; do ./check $id --tier quick > /dev/null 2>&1; echo "$id quick exit=$?"; done
exit $rc
