#!/bin/sh
# evidence of runs against deliberately broken trees goes to a scratch directory, never to evidence/
export VERIF_EVIDENCE_DIR="${VERIF_EVIDENCE_DIR:-/verif/sim/target/evidence-scratch}"
# usage: tools_try_mutant.sh <patch.diff> <check-id> [extra args]   -- applies to /repo, runs check, reverts
p="$1"; id="$2"; shift 2
case "$p" in /*) ;; *) p="$(pwd)/$p" ;; esac
cd /repo || exit 2
git diff --quiet || { echo "repo dirty"; exit 2; }
if ! git apply --check "$p" 2>/dev/null; then echo "PATCH-DOES-NOT-APPLY $p"; exit 3; fi
git apply "$p"
cd /verif && ./check "$id" "$@" 2>&1 | grep -E "^(VIOLATION|KNOWN|violation|harness)" | cut -c1-400 | head -6
rc=$?
cd /repo && git checkout -- . 
# leave a simulator built against the clean tree behind
(cd /verif/sim && CARGO_NET_OFFLINE=true cargo build --release --offline >/dev/null 2>&1)
